//! C29 / D13 demonstration: a task accepted by ThreadPool::submit_or_spawn is never run when the
//! lingering auxiliary worker it was queued for times out at the same moment.
use std::sync::atomic::{AtomicBool, Ordering};
use std::sync::Arc;
use std::time::{Duration, Instant};

use quandary::thread::ThreadGroup;

fn spin_until(t: Instant) {
    while Instant::now() < t {
        std::hint::spin_loop();
    }
}

fn main() {
    let linger = Duration::from_micros(300);
    let max_iters: usize = std::env::args().nth(1).and_then(|s| s.parse().ok()).unwrap_or(200_000);
    let group = ThreadGroup::new();
    let pool = group.start_pool(Some("demo".to_owned()), 0, linger).unwrap();
    let start = Instant::now();
    for iter in 0..max_iters {
        // Task A: no worker is available (0 permanent workers), so an auxiliary worker W is spawned;
        // after running A it lingers for `linger`.
        let a_done = Arc::new(AtomicBool::new(false));
        let a = a_done.clone();
        pool.submit_or_spawn(move || a.store(true, Ordering::SeqCst)).unwrap();
        let a_deadline = Instant::now() + Duration::from_millis(300);
        while !a_done.load(Ordering::SeqCst) && Instant::now() < a_deadline {
            std::hint::spin_loop();
        }
        if !a_done.load(Ordering::SeqCst) {
            // A itself was queued for a worker left over from the previous iteration, which then
            // timed out: the same defect.
            println!("iteration {iter}: task A accepted (Ok) but not run after 300 ms");
            group.shut_down();
            group.await_shutdown();
            println!(
                "group.await_shutdown() returned; task A has run: {}   <-- C29 violated (stranded task)",
                a_done.load(Ordering::SeqCst)
            );
            std::process::exit(1);
        }
        let t0 = Instant::now();
        // Submit task B about when W's linger timeout expires (jitter sweeps across the window).
        let jitter = Duration::from_nanos(((iter * 7919) % 120_000) as u64);
        spin_until(t0 + linger - Duration::from_micros(40) + jitter);
        let b_done = Arc::new(AtomicBool::new(false));
        let b = b_done.clone();
        let r = pool.submit_or_spawn(move || b.store(true, Ordering::SeqCst));
        assert!(r.is_ok(), "task B was rejected");
        // B was ACCEPTED (Ok).  Give it 300 ms to run.
        let deadline = Instant::now() + Duration::from_millis(300);
        while !b_done.load(Ordering::SeqCst) && Instant::now() < deadline {
            std::thread::yield_now();
        }
        if !b_done.load(Ordering::SeqCst) {
            println!(
                "iteration {iter} ({:?} elapsed): task B accepted (Ok) but not run after 300 ms",
                start.elapsed()
            );
            group.shut_down();
            group.await_shutdown();
            println!(
                "group.await_shutdown() returned; task B has run: {}   <-- C29 violated (stranded task)",
                b_done.load(Ordering::SeqCst)
            );
            std::process::exit(1);
        }
        // let the worker(s) time out so that the next iteration starts from an empty pool
        std::thread::sleep(linger * 3);
    }
    group.shut_down();
    group.await_shutdown();
    println!("no stranded task in {max_iters} iterations");
}
