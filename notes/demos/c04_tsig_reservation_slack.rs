//! Finding (C04, clause "whenever the complete response (as produced over TCP) fits within the UDP
//! limit, the UDP response is identical to it"): for TSIG-signed queries the Writer sets aside room
//! for the UNCOMPRESSED TSIG RR (PreparedTsigRr::signed_len, Writer::set_tsig), but finish_with_mac
//! writes the key name COMPRESSED against names already in the message.  A signed response whose
//! final size is within (key name length - 2) octets below the limit is therefore truncated over UDP
//! (TC set, records dropped) although the complete response - as sent over TCP - fits.
//!
//! Place at tests/c04_slack.rs of the crate and run `cargo test --offline --test c04_slack -- --nocapture`.
//! Public API only.  Found by /verif/bounded/src/bin/bnd_server_answers.rs (which tolerates the slack).
use std::net::Ipv4Addr;
use std::sync::Arc;
use std::time::SystemTime;

use quandary::class::Class;
use quandary::db::catalog::Entry;
use quandary::db::zone::GluePolicy;
use quandary::db::{HashMapTreeZone, SingleZoneCatalog};
use quandary::message::tsig::{Algorithm, PreparedTsigRr};
use quandary::message::writer::TsigMode;
use quandary::message::{ExtendedRcode, Qtype, Question, Writer};
use quandary::name::{LowercaseName, Name};
use quandary::rr::rdata::TimeSigned;
use quandary::rr::{Rdata, Ttl, Type};
use quandary::server::{ReceivedInfo, Response, Server, Transport, TsigKeyMap};

const HOST: &str = "a-host-whose-name-is-also-the-name-of-the-key.example.";
const SECRET: &[u8] = b"0123456789abcdef0123456789abcdef";

fn server(txt_len: usize) -> Server<SingleZoneCatalog<HashMapTreeZone, ()>> {
    let apex: Box<Name> = "example.".parse().unwrap();
    let host: Box<Name> = HOST.parse().unwrap();
    let mut zone = HashMapTreeZone::new(apex.clone(), Class::IN, GluePolicy::Narrow);
    let mut rest = txt_len;
    let mut rdata = Vec::new();
    while rest > 0 { let l = (rest - 1).min(255); rdata.push(l as u8); rdata.extend(std::iter::repeat(b'x').take(l)); rest -= l + 1; }
    zone.add(&host, Type::TXT, Class::IN, Ttl::from(60), <&Rdata>::try_from(&rdata[..]).unwrap()).unwrap();
    let server = Server::new(Arc::new(SingleZoneCatalog::new(Entry::Loaded(Arc::new(zone), ()))));
    let mut keys = TsigKeyMap::new();
    keys.insert(host, (Algorithm::HmacSha256, SECRET.into()));
    server.set_tsig_keys(Arc::new(keys));
    server
}

fn signed_query() -> Vec<u8> {
    let mut buf = [0u8; 512];
    let mut w = Writer::new(&mut buf, 512).unwrap();
    w.set_id(7);
    w.add_question(&Question { qname: HOST.parse().unwrap(), qtype: Qtype::from(Type::TXT), qclass: Class::IN.into() }).unwrap();
    let key_name: Box<LowercaseName> = HOST.parse().unwrap();
    let now: TimeSigned = SystemTime::now().try_into().unwrap();
    w.set_tsig(TsigMode::Request { algorithm: Algorithm::HmacSha256, key: SECRET.into() },
        PreparedTsigRr { key_name, time_signed: now, fudge: 300, original_id: 7, error: ExtendedRcode::NOERROR, server_time: now }).unwrap();
    let (len, _) = w.finish_with_mac();
    buf[..len].to_vec()
}

fn ask(server: &Server<SingleZoneCatalog<HashMapTreeZone, ()>>, q: &[u8], t: Transport) -> Vec<u8> {
    let mut buf = vec![0u8; 65535];
    match server.handle_message(q, ReceivedInfo::new(Ipv4Addr::LOCALHOST.into(), t), &mut buf) {
        Response::Single(n) => { buf.truncate(n); buf }
        Response::None => panic!("no response"),
    }
}

#[test]
fn udp_equals_tcp_whenever_the_complete_signed_response_fits() {
    let q = signed_query();
    let mut bad = vec![];
    for txt_len in 200..420 {
        let s = server(txt_len);
        let (tcp, udp) = (ask(&s, &q, Transport::Tcp), ask(&s, &q, Transport::Udp));
        let (udp_tc, udp_ancount) = (udp[2] & 2 != 0, u16::from_be_bytes([udp[6], udp[7]]));
        if tcp.len() <= 512 && (udp_tc || udp_ancount == 0) { bad.push((txt_len, tcp.len(), udp.len())); }
    }
    for (txt_len, tcp, udp) in &bad {
        println!("TXT RDATA of {txt_len} octets: complete (TCP) response has {tcp} octets <= 512, but the UDP response ({udp} octets) is truncated");
    }
    assert!(bad.is_empty(), "{} response sizes below the limit are truncated over UDP", bad.len());
}
