// D4 (C01 / C10): the TSIG error writers of src/server/mod.rs call
// `response.set_tsig(..).unwrap()`.  `Writer::set_tsig` returns Err(Truncation)
// when the whole uncompressed TSIG RR does not fit below the response limit; over
// UDP without EDNS the limit is 512 octets, and a TSIG RR with a long key name
// and a long (unknown) algorithm name needs key + alg + 26 octets.  The contract
// of `find_tsig_algorithm_or_write_error` (unit tsig_server) states the missing
// precondition:  room >= key_name_len + alg_name_len + 26  (+6 for BADTIME, + MAC).
use std::net::{IpAddr, Ipv4Addr};
use std::sync::Arc;
use quandary::class::Class;
use quandary::db::catalog::Entry;
use quandary::db::zone::GluePolicy;
use quandary::db::{HashMapTreeZone, SingleZoneCatalog};
use quandary::name::Name;
use quandary::rr::{Rdata, Ttl, Type};
use quandary::server::{ReceivedInfo, Response, Server, Transport};

fn long_name(fill: u8) -> Vec<u8> {
    // 3 labels of 63 + 1 label of 61 + root = 255 octets
    let mut n = Vec::new();
    for len in [63usize, 63, 63, 61] { n.push(len as u8); n.extend(std::iter::repeat(fill).take(len)); }
    n.push(0);
    assert_eq!(n.len(), 255);
    n
}

fn main() {
    let apex: Box<Name> = "quandary.test.".parse().unwrap();
    let mut zone = HashMapTreeZone::new(apex.clone(), Class::IN, GluePolicy::Narrow);
    let mut soa = Vec::new();
    soa.extend_from_slice(b"\x02ns\x08quandary\x04test\x00\x05admin\x08quandary\x04test\x00");
    for v in [1u32, 2, 3, 4, 3600] { soa.extend_from_slice(&v.to_be_bytes()); }
    zone.add(&apex, Type::SOA, Class::IN, Ttl::from(60), <&Rdata>::try_from(&soa[..]).unwrap()).unwrap();
    let server = Server::new(Arc::new(SingleZoneCatalog::new(Entry::Loaded(Arc::new(zone), ()))));

    // header: QDCOUNT 1, ARCOUNT 1
    let mut m = vec![0x12, 0x34, 0x00, 0x00, 0, 1, 0, 0, 0, 0, 0, 1];
    m.extend_from_slice(b"\x08quandary\x04test\x00\x00\x06\x00\x01");
    // TSIG RR: owner (key name) 255 octets, TYPE 250, CLASS ANY, TTL 0
    m.extend_from_slice(&long_name(b'k'));
    m.extend_from_slice(&[0, 250, 0, 255, 0, 0, 0, 0]);
    // RDATA: algorithm name 255 octets (unknown), time 6, fudge 2, MAC size 0, orig id 2, error 2, other len 0
    let mut rd = long_name(b'a');
    rd.extend_from_slice(&[0, 0, 0, 0, 0, 1, 1, 44, 0, 0, 0x12, 0x34, 0, 0, 0, 0]);
    m.extend_from_slice(&(rd.len() as u16).to_be_bytes());
    m.extend_from_slice(&rd);
    println!("query length: {} octets (unsigned; no secret needed)", m.len());

    let mut out = vec![0u8; 65535];
    let info = ReceivedInfo::new(IpAddr::V4(Ipv4Addr::new(127, 0, 0, 1)), Transport::Udp);
    let r = std::panic::catch_unwind(std::panic::AssertUnwindSafe(|| {
        match server.handle_message(&m, info, &mut out) {
            Response::Single(n) => println!("response of {} octets", n),
            Response::None => println!("no response"),
        }
    }));
    println!("handle_message panicked: {}", r.is_err());
}
