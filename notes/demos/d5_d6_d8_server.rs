use std::net::{IpAddr, Ipv4Addr};
use std::sync::Arc;
use quandary::class::Class;
use quandary::db::catalog::Entry;
use quandary::db::zone::GluePolicy;
use quandary::db::{HashMapTreeZone, SingleZoneCatalog};
use quandary::message::Reader;
use quandary::name::Name;
use quandary::rr::{Rdata, Ttl, Type};
use quandary::server::{ReceivedInfo, Response, Server, Transport};

fn build() -> Server<SingleZoneCatalog<HashMapTreeZone, ()>> {
    let apex: Box<Name> = "quandary.test.".parse().unwrap();
    let mut zone = HashMapTreeZone::new(apex.clone(), Class::IN, GluePolicy::Narrow);
    let mut soa = Vec::new();
    soa.extend_from_slice(b"\x02ns\x08quandary\x04test\x00");
    soa.extend_from_slice(b"\x05admin\x08quandary\x04test\x00");
    for v in [1u32, 2, 3, 4, 3600] { soa.extend_from_slice(&v.to_be_bytes()); }
    zone.add(&apex, Type::SOA, Class::IN, Ttl::from(60), <&Rdata>::try_from(&soa[..]).unwrap()).unwrap();
    zone.add(&apex, Type::NS, Class::IN, Ttl::from(60), <&Rdata>::try_from(&b"\x02ns\x08quandary\x04test\x00"[..]).unwrap()).unwrap();
    let entry = Entry::Loaded(Arc::new(zone), ());
    Server::new(Arc::new(SingleZoneCatalog::new(entry)))
}

fn query(extra: &[u8], arcount: u16, trailing: &[u8]) -> Vec<u8> {
    let mut m = vec![0x12, 0x34, 0x00, 0x00, 0, 1, 0, 0, 0, 0, (arcount >> 8) as u8, arcount as u8];
    m.extend_from_slice(b"\x04nope\x08quandary\x04test\x00\x00\x01\x00\x01");
    m.extend_from_slice(extra);
    m.extend_from_slice(trailing);
    m
}

fn run(server: &Server<SingleZoneCatalog<HashMapTreeZone, ()>>, msg: &[u8]) -> Vec<u8> {
    let mut out = vec![0u8; 65535];
    let info = ReceivedInfo::new(IpAddr::V4(Ipv4Addr::new(127, 0, 0, 1)), Transport::Tcp);
    match server.handle_message(msg, info, &mut out) {
        Response::Single(n) => out[..n].to_vec(),
        Response::None => vec![],
    }
}

fn main() {
    let server = build();
    // D8: negative answer SOA TTL
    let resp = run(&server, &query(&[], 0, &[]));
    let mut rd = Reader::try_from(&resp[..]).unwrap();
    println!("plain: rcode={:?} nscount={}", rd.rcode(), rd.nscount());
    rd.skip_question().unwrap();
    let rr = rd.read_rr().unwrap();
    println!("D8: authority {:?} TTL = {:?} (SOA TTL 60, MINIMUM 3600; RFC 2308 wants 60)", rr.rr_type, rr.ttl);
    // D5: trailing octet after the last counted record
    let resp = run(&server, &query(&[], 0, &[0xff]));
    let rd = Reader::try_from(&resp[..]).unwrap();
    println!("D5: trailing octet -> rcode={:?} (expected FORMERR)", rd.rcode());
    // D6: OPT with extended-rcode bits 0x80 and EDNS version 1
    let opt = [0u8, 0, 41, 0x04, 0xd0, 0x80, 0x01, 0x00, 0x00, 0, 0];
    let resp = run(&server, &query(&opt, 1, &[]));
    let mut rd = Reader::try_from(&resp[..]).unwrap();
    let hdr_rcode = rd.rcode();
    rd.skip_question().unwrap();
    let mut opt_ttl = None;
    let total = rd.ancount() as usize + rd.nscount() as usize + rd.arcount() as usize;
    for _ in 0..total { let p = rd.peek_rr().unwrap(); if p.rr_type() == Type::OPT { opt_ttl = Some(resp[resp.len()-6..resp.len()-2].to_vec()); } p.skip(); }
    println!("D6: version 1 with ext-rcode bit 7 -> header rcode={:?} opt={:?} (expected BADVERS = ext rcode 16)", hdr_rcode, opt_ttl);
}
