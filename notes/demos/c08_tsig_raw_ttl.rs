use std::net::{IpAddr, Ipv4Addr};
use std::sync::Arc;
use quandary::class::Class;
use quandary::db::catalog::Entry;
use quandary::db::{HashMapTreeZone, SingleZoneCatalog};
use quandary::message::Reader;
use quandary::name::Name;
use quandary::server::{ReceivedInfo, Response, Server, Transport};
fn main() {
    let apex: Box<Name> = "quandary.test.".parse().unwrap();
    let entry: Entry<HashMapTreeZone, ()> = Entry::NotYetLoaded(apex, Class::IN, ());
    let server = Server::new(Arc::new(SingleZoneCatalog::new(entry)));
    for ttl in [0u32, 0x8000_0000, 5] {
        let mut m = vec![0x12, 0x34, 0, 0, 0, 1, 0, 0, 0, 0, 0, 1];
        m.extend_from_slice(b"\x04nope\x08quandary\x04test\x00\x00\x01\x00\x01");
        m.extend_from_slice(b"\x01k\x00\x00\xfa\x00\xff");
        m.extend_from_slice(&ttl.to_be_bytes());
        let mut rd = Vec::new();
        rd.extend_from_slice(b"\x0bhmac-sha256\x00");
        rd.extend_from_slice(&[0, 0, 0x65, 0, 0, 0, 0x01, 0x2c]);
        rd.extend_from_slice(&[0, 32]); rd.extend_from_slice(&[0u8; 32]);
        rd.extend_from_slice(&[0x12, 0x34, 0, 0, 0, 0]);
        m.extend_from_slice(&(rd.len() as u16).to_be_bytes()); m.extend_from_slice(&rd);
        let mut out = vec![0u8; 65535];
        let info = ReceivedInfo::new(IpAddr::V4(Ipv4Addr::new(127, 0, 0, 1)), Transport::Tcp);
        if let Response::Single(n) = server.handle_message(&m, info, &mut out) {
            let r = Reader::try_from(&out[..n]).unwrap();
            println!("TSIG TTL {:#x}: rcode {:?}", ttl, r.rcode());
        }
    }
}
