// C22 / D11 demonstration: removing a child entry drops the parent's entry.
use quandary::class::Class;
use quandary::db::catalog::Entry;
use quandary::db::{Catalog, HashMapTreeCatalog, HashMapTreeZone};
use quandary::name::Name;

fn main() {
    let example: Box<Name> = "example.".parse().unwrap();
    let a_example: Box<Name> = "a.example.".parse().unwrap();
    let mut catalog = HashMapTreeCatalog::<HashMapTreeZone, ()>::new();
    catalog.insert(Entry::NotYetLoaded(example.clone(), Class::IN, ()));
    catalog.insert(Entry::NotYetLoaded(a_example.clone(), Class::IN, ()));
    println!("before: get(example.) = {:?}", catalog.get(&example, Class::IN).map(|e| e.name().to_string()));
    let removed = catalog.remove(&a_example, Class::IN);
    println!("remove(a.example.) returned {:?}", removed.map(|e| e.name().to_string()));
    let after = catalog.get(&example, Class::IN).map(|e| e.name().to_string());
    println!("after:  get(example.) = {:?}", after);
    println!("after:  lookup(a.example.) = {:?}", catalog.lookup(&a_example, Class::IN).map(|e| e.name().to_string()));
    println!("after:  iter count = {}", catalog.iter().count());
    if after.is_none() {
        println!("DEFECT: entry example. was dropped by removing a.example.");
        std::process::exit(1);
    }
}
