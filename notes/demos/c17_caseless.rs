use quandary::rr::Type;
use quandary::class::Class;
use quandary::message::{Qtype, Qclass};
fn main() {
    println!("\"ns\" -> {:?}; \"NS\" -> {:?}", "ns".parse::<Type>().map(u16::from), "NS".parse::<Type>().map(u16::from));
    println!("\"in\" -> {:?}; \"axfr\" -> {:?}; \"any\" -> {:?}", "in".parse::<Class>().map(u16::from), "axfr".parse::<Qtype>().map(u16::from), "any".parse::<Qclass>().map(u16::from));
}
