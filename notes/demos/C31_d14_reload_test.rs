// Append to src/bin/quandaryd/zones.rs of a scratch copy and run
//   cargo test --offline --bin quandaryd d14 -- --nocapture
// Fails on /repo (defect D14), passes with notes/proposed_fixes/C31_previous_exact.diff applied.
#[cfg(test)]
mod d14_demo {
    //! C31 / D14 demonstration (scratch copy only): a failing CHILD zone makes `reload` put the
    //! PARENT zone's previous (stale) entry into the new catalog.
    use super::*;
    use crate::config::{ConfigClass, ConfigGluePolicy, ConfigName};
    use quandary::class::Class;
    use quandary::name::Name;
    use std::time::Duration;

    fn zone_config(name: &str, path: &std::path::Path) -> ZoneConfig {
        ZoneConfig {
            name: ConfigName(name.parse::<Box<Name>>().unwrap()),
            class: ConfigClass(Class::IN),
            glue_policy: ConfigGluePolicy::Narrow,
            path: path.to_owned(),
        }
    }

    fn parent_zone_text(serial: u32) -> String {
        format!(
            "$ORIGIN example.\n\
             @ 3600 IN SOA ns.example. admin.example. {serial} 3600 600 86400 300\n\
             @ 3600 IN NS ns.example.\n\
             ns 3600 IN A 192.0.2.1\n"
        )
    }

    #[test]
    fn d14_failing_child_reinstates_stale_parent() {
        let dir = std::env::temp_dir().join(format!("d14-demo-{}", std::process::id()));
        std::fs::create_dir_all(&dir).unwrap();
        let parent_path = dir.join("example.zone");
        let child_path = dir.join("sub.example.zone");
        let parent: Box<Name> = "example.".parse().unwrap();
        let child: Box<Name> = "sub.example.".parse().unwrap();

        // Step 1: only the parent zone is configured; it loads.
        std::fs::write(&parent_path, parent_zone_text(1)).unwrap();
        let cat1 = load(vec![zone_config("example.", &parent_path)]);
        let old_parent_zone = match cat1.get(&parent, Class::IN) {
            Some(Entry::Loaded(zone, _)) => zone.clone(),
            _ => panic!("step 1: parent did not load"),
        };

        // Step 2: the parent's file is edited (valid, newer), and a child zone with an INVALID file is
        // added to the configuration; then SIGHUP => reload.
        std::fs::write(&parent_path, parent_zone_text(2)).unwrap();
        let f = std::fs::File::options().write(true).open(&parent_path).unwrap();
        f.set_modified(std::time::SystemTime::now() + Duration::from_secs(10)).unwrap();
        drop(f);
        std::fs::write(&child_path, "this is not a zone file (\n").unwrap();
        let cat2 = reload(
            vec![
                zone_config("example.", &parent_path),
                zone_config("sub.example.", &child_path),
            ],
            &cat1,
        );

        let child_entry = cat2.get(&child, Class::IN);
        let parent_is_stale = match cat2.get(&parent, Class::IN) {
            Some(Entry::Loaded(zone, _)) => Arc::ptr_eq(zone, &old_parent_zone),
            _ => panic!("step 2: parent not loaded"),
        };
        println!(
            "child entry present: {} (expected: Some(FailedToLoad));  parent serves the OLD zone object: {} (expected: false)",
            child_entry.is_some(),
            parent_is_stale
        );
        let _ = std::fs::remove_dir_all(&dir);
        assert!(
            matches!(child_entry, Some(Entry::FailedToLoad(..))),
            "C31 violated: the never-loaded child zone has no FailedToLoad entry (it is answered from the parent zone instead of SERVFAIL)"
        );
        assert!(
            !parent_is_stale,
            "C31 violated: the child's load failure replaced the parent's freshly loaded data by its previous data"
        );
    }
}
