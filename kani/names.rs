//! Kani harnesses for unit names (see /verif/notes/AGENT-BRIEF.md for naming: full_*, bnd_*, cex_*).
//! Property C16: domain-name text form, equality, ordering, hashing.
#![allow(unused_imports, dead_code)]

use core::cmp::Ordering;
use core::hash::{Hash, Hasher};
use core::str::FromStr;

use crate::name::{Error, Label, LabelBuf, Name, NameBuilder};

// ---------------------------------------------------------------------
// Reference model (RFC 1034 3.1 / RFC 4343: ASCII case-insensitive;
// RFC 4034 6.1: canonical order).  Written from the RFCs.
// ---------------------------------------------------------------------

/// RFC 4343 section 3: only the octets 0x41..=0x5A fold, to 0x61..=0x7A.
fn fold(c: u8) -> u8 {
    if 0x41 <= c && c <= 0x5a {
        c + 0x20
    } else {
        c
    }
}

/// Same length and equal octet by octet after case folding.
fn ref_label_eq(a: &[u8], b: &[u8]) -> bool {
    if a.len() != b.len() {
        return false;
    }
    let mut i = 0;
    while i < a.len() {
        if fold(a[i]) != fold(b[i]) {
            return false;
        }
        i += 1;
    }
    true
}

/// RFC 4034 6.1: labels compare as unsigned left-justified octet strings with
/// upper-case US-ASCII letters treated as lower case; the absence of an octet
/// sorts before a zero octet.
fn ref_label_cmp(a: &[u8], b: &[u8]) -> Ordering {
    let mut i = 0;
    loop {
        if i >= a.len() && i >= b.len() {
            return Ordering::Equal;
        }
        if i >= a.len() {
            return Ordering::Less;
        }
        if i >= b.len() {
            return Ordering::Greater;
        }
        let (x, y) = (fold(a[i]), fold(b[i]));
        if x < y {
            return Ordering::Less;
        }
        if x > y {
            return Ordering::Greater;
        }
        i += 1;
    }
}

/// Largest label (type bound of `Label`).
const L: usize = 63;

/// A hasher that records the octets it is fed.
pub(crate) struct Rec {
    b: [u8; 80],
    n: usize,
}
impl Rec {
    fn new() -> Self {
        Rec { b: [0; 80], n: 0 }
    }
}
impl Hasher for Rec {
    fn finish(&self) -> u64 {
        0
    }
    fn write(&mut self, bytes: &[u8]) {
        for &x in bytes {
            assert!(self.n < 80);
            self.b[self.n] = x;
            self.n += 1;
        }
    }
}

fn any_label<const N: usize>(buf: &[u8; N]) -> &Label {
    let n: usize = kani::any();
    kani::assume(n <= N && n <= L);
    match <&Label>::try_from(&buf[..n]) {
        Ok(l) => l,
        Err(_) => unreachable!(),
    }
}

// ---------------------------------------------------------------------
// Label: complete by the type bound (labels are <= 63 octets) for the
// full_* harnesses; the bnd_*_16 variants are the same checks on labels of
// <= 16 octets for the quick tier.
// ---------------------------------------------------------------------

fn check_label_eq<const N: usize>() {
    let (ba, bb): ([u8; N], [u8; N]) = (kani::any(), kani::any());
    let (a, b) = (any_label(&ba), any_label(&bb));
    assert!((a == b) == ref_label_eq(a.octets(), b.octets()));
}

fn check_label_cmp<const N: usize>() {
    let (ba, bb): ([u8; N], [u8; N]) = (kani::any(), kani::any());
    let (a, b) = (any_label(&ba), any_label(&bb));
    let c = a.cmp(b);
    assert!(c == ref_label_cmp(a.octets(), b.octets()));
    assert!(a.partial_cmp(b) == Some(c));
}

fn check_label_cmp_eq<const N: usize>() {
    let (ba, bb): ([u8; N], [u8; N]) = (kani::any(), kani::any());
    let (a, b) = (any_label(&ba), any_label(&bb));
    assert!((a.cmp(b) == Ordering::Equal) == (a == b));
}

fn check_label_cmp_antisym<const N: usize>() {
    let (ba, bb): ([u8; N], [u8; N]) = (kani::any(), kani::any());
    let (a, b) = (any_label(&ba), any_label(&bb));
    assert!(b.cmp(a) == a.cmp(b).reverse());
}

/// [C16.label_eq] `Label::eq` is exactly ASCII-case-insensitive octet equality.
#[kani::proof]
#[kani::unwind(65)]
pub(crate) fn full_label_eq_is_ascii_ci() {
    check_label_eq::<L>();
}

/// [C16.label_cmp] `Label::cmp` is the RFC 4034 6.1 canonical label order
/// (a total order: the reference is the lexicographic order of the folded
/// octet strings), and `partial_cmp` agrees with it.
#[kani::proof]
#[kani::unwind(65)]
#[kani::solver(kissat)]
pub(crate) fn full_label_cmp_is_canonical() {
    check_label_cmp::<L>();
}

/// [C16.label_cmp] ordering is consistent with equality: `cmp == Equal` iff `eq`.
#[kani::proof]
#[kani::unwind(65)]
#[kani::solver(kissat)]
pub(crate) fn full_label_cmp_equal_iff_eq() {
    check_label_cmp_eq::<L>();
}

/// [C16.label_cmp] antisymmetry: `b.cmp(a) == a.cmp(b).reverse()`.
#[kani::proof]
#[kani::unwind(65)]
#[kani::solver(kissat)]
pub(crate) fn full_label_cmp_antisymmetric() {
    check_label_cmp_antisym::<L>();
}

/// Quick-tier variants: labels of <= 16 octets.
#[kani::proof]
#[kani::unwind(18)]
pub(crate) fn bnd_label_eq_is_ascii_ci_16() {
    check_label_eq::<16>();
}
#[kani::proof]
#[kani::unwind(18)]
pub(crate) fn bnd_label_cmp_is_canonical_16() {
    check_label_cmp::<16>();
}
#[kani::proof]
#[kani::unwind(18)]
pub(crate) fn bnd_label_cmp_equal_iff_eq_16() {
    check_label_cmp_eq::<16>();
}
#[kani::proof]
#[kani::unwind(18)]
pub(crate) fn bnd_label_cmp_antisymmetric_16() {
    check_label_cmp_antisym::<16>();
}

/// [C16.label_hash] The octets a label feeds to a hasher are its length followed
/// by its case-folded octets - hence equal labels feed identical octets, and
/// labels that feed identical octets are equal.
#[kani::proof]
#[kani::unwind(65)]
pub(crate) fn full_label_hash_is_folded_octets() {
    let ba: [u8; L] = kani::any();
    let a = any_label(&ba);
    let mut h = Rec::new();
    a.hash(&mut h);
    assert!(h.n == a.len() + 1);
    assert!(h.b[0] as usize == a.len());
    let mut i = 0;
    while i < a.len() {
        assert!(h.b[i + 1] == fold(a.octets()[i]));
        i += 1;
    }
}

/// [C16.label_hash] direct form: `a == b` implies identical hasher input.
#[kani::proof]
#[kani::unwind(65)]
pub(crate) fn full_label_eq_implies_same_hash_input() {
    let (ba, bb): ([u8; L], [u8; L]) = (kani::any(), kani::any());
    let (a, b) = (any_label(&ba), any_label(&bb));
    if a == b {
        let (mut ha, mut hb) = (Rec::new(), Rec::new());
        a.hash(&mut ha);
        b.hash(&mut hb);
        assert!(ha.n == hb.n);
        let mut i = 0;
        while i < ha.n {
            assert!(ha.b[i] == hb.b[i]);
            i += 1;
        }
    }
}

// ---------------------------------------------------------------------
// Name-level API on valid names: BOUNDED (at most NL non-null labels of at
// most LO arbitrary octets each - '.', '\\', space, NUL, non-ASCII, '*' all
// included).  The `&Name` is laid over a stack buffer with the crate's own
// #[repr(C)] layout [n_labels | label offsets | wire form] (what Name::root()
// does with its static), so no Box<Name> allocation is needed.
// ---------------------------------------------------------------------

const NL: usize = 3;
const LO: usize = 2;
const WMAX: usize = NL * (LO + 1) + 1;
const NBUF: usize = 1 + (NL + 1) + WMAX;

/// Reference view of a name: `k` non-null labels, label `i` has `len[i]` octets.
pub(crate) struct RefName {
    k: usize,
    len: [usize; NL],
    oct: [u8; NL * LO],
    buf: [u8; NBUF],
    wire_at: usize,
    wire_len: usize,
}

impl RefName {
    fn any() -> Self {
        let k: usize = kani::any();
        kani::assume(k <= NL);
        let len: [usize; NL] = kani::any();
        let oct: [u8; NL * LO] = kani::any();
        Self::from_parts(k, len, oct)
    }

    fn from_parts(k: usize, len: [usize; NL], oct: [u8; NL * LO]) -> Self {
        let mut buf = [0u8; NBUF];
        let n_labels = k + 1;
        let wire_at = 1 + n_labels;
        buf[0] = n_labels as u8;
        let mut w = 0usize; // offset in the wire form
        let mut i = 0;
        while i < NL {
            if i < k {
                kani::assume(1 <= len[i] && len[i] <= LO);
                buf[1 + i] = w as u8;
                buf[wire_at + w] = len[i] as u8;
                let mut j = 0;
                while j < LO {
                    if j < len[i] {
                        buf[wire_at + w + 1 + j] = oct[i * LO + j];
                    }
                    j += 1;
                }
                w += 1 + len[i];
            }
            i += 1;
        }
        buf[1 + k] = w as u8; // the null label
        buf[wire_at + w] = 0;
        RefName { k, len, oct, buf, wire_at, wire_len: w + 1 }
    }

    fn name(&self) -> &Name {
        let n = (self.k + 1) + self.wire_len;
        unsafe { &*(core::ptr::slice_from_raw_parts(self.buf.as_ptr(), n) as *const Name) }
    }

    fn name_mut(&mut self) -> &mut Name {
        let n = (self.k + 1) + self.wire_len;
        unsafe { &mut *(core::ptr::slice_from_raw_parts_mut(self.buf.as_mut_ptr(), n) as *mut Name) }
    }

    fn wire(&self) -> &[u8] {
        &self.buf[self.wire_at..self.wire_at + self.wire_len]
    }

    /// Octets of label `i` (`i == k` is the null label).
    fn label(&self, i: usize) -> &[u8] {
        if i < self.k {
            &self.oct[i * LO..i * LO + self.len[i]]
        } else {
            &[]
        }
    }

    /// Wire offset of label `i` (`i <= k`).
    fn offset(&self, i: usize) -> usize {
        let mut w = 0;
        let mut j = 0;
        while j < NL {
            if j < i && j < self.k {
                w += 1 + self.len[j];
            }
            j += 1;
        }
        w
    }
}

/// Names are equal iff they have the same number of labels and the labels are
/// pairwise equal ignoring ASCII case (RFC 1034 3.1, RFC 4343).
fn ref_name_eq(a: &RefName, b: &RefName) -> bool {
    if a.k != b.k {
        return false;
    }
    let mut i = 0;
    while i < NL {
        if i < a.k && !ref_label_eq(a.label(i), b.label(i)) {
            return false;
        }
        i += 1;
    }
    true
}

/// RFC 4034 6.1 canonical name order: compare label by label starting with the
/// rightmost (most significant) label below the root; the first unequal pair
/// decides; if one name runs out of labels first, it sorts first.
fn ref_name_cmp(a: &RefName, b: &RefName) -> Ordering {
    let mut j = 0;
    while j < NL {
        if j >= a.k && j >= b.k {
            return Ordering::Equal;
        }
        if j >= a.k {
            return Ordering::Less;
        }
        if j >= b.k {
            return Ordering::Greater;
        }
        let c = ref_label_cmp(a.label(a.k - 1 - j), b.label(b.k - 1 - j));
        if c != Ordering::Equal {
            return c;
        }
        j += 1;
    }
    Ordering::Equal
}

/// `a` is `b` or below `b`: the labels of `b` are the last labels of `a`.
fn ref_subdomain(a: &RefName, b: &RefName) -> bool {
    if a.k < b.k {
        return false;
    }
    let mut j = 0;
    while j < NL {
        if j < b.k && !ref_label_eq(a.label(a.k - 1 - j), b.label(b.k - 1 - j)) {
            return false;
        }
        j += 1;
    }
    true
}

/// [C16.name_eq] `Name::eq` ignores ASCII case and nothing else.
#[kani::proof]
#[kani::unwind(6)]
pub(crate) fn bnd_name_eq_is_labelwise_ci() {
    let (a, b) = (RefName::any(), RefName::any());
    assert!((a.name() == b.name()) == ref_name_eq(&a, &b));
}

/// [C16.name_cmp] `Name::cmp` is the RFC 4034 6.1 canonical order (a total
/// order: the reference is a lexicographic order of label sequences).
#[kani::proof]
#[kani::unwind(6)]
pub(crate) fn bnd_name_cmp_is_canonical() {
    let (a, b) = (RefName::any(), RefName::any());
    let c = a.name().cmp(b.name());
    assert!(c == ref_name_cmp(&a, &b));
    assert!(a.name().partial_cmp(b.name()) == Some(c));
}

/// [C16.name_cmp] ordering is consistent with equality and antisymmetric.
#[kani::proof]
#[kani::unwind(6)]
pub(crate) fn bnd_name_cmp_consistent_with_eq() {
    let (a, b) = (RefName::any(), RefName::any());
    let c = a.name().cmp(b.name());
    assert!((c == Ordering::Equal) == (a.name() == b.name()));
    assert!(b.name().cmp(a.name()) == c.reverse());
}

/// [C16.name_hash] a name feeds the hasher its case-folded wire form (every
/// length octet is <= 63 and is not changed by folding) - so equal names hash
/// alike and nothing but ASCII case is ignored.
#[kani::proof]
#[kani::unwind(12)]
pub(crate) fn bnd_name_hash_is_folded_wire() {
    let a = RefName::any();
    let mut h = Rec::new();
    a.name().hash(&mut h);
    let w = a.wire();
    assert!(h.n == w.len());
    let mut i = 0;
    while i < WMAX {
        if i < w.len() {
            assert!(h.b[i] == fold(w[i]));
        }
        i += 1;
    }
}

/// [C16.subdomain] `eq_or_subdomain_of` agrees with the label-suffix reference.
#[kani::proof]
#[kani::unwind(6)]
pub(crate) fn bnd_name_eq_or_subdomain_of() {
    let (a, b) = (RefName::any(), RefName::any());
    assert!(a.name().eq_or_subdomain_of(b.name()) == ref_subdomain(&a, &b));
}

/// Octet-by-octet slice equality (explicit loop; the harness slices are <= WMAX).
fn same(a: &[u8], b: &[u8]) -> bool {
    if a.len() != b.len() {
        return false;
    }
    let mut i = 0;
    while i < a.len() {
        if a[i] != b[i] {
            return false;
        }
        i += 1;
    }
    true
}

/// [C16.labels] `len`, `wire_repr`, `Index<usize>`, `labels()`, `is_root`,
/// `wire_repr_to`, `wire_repr_from` agree with the reference view.
#[kani::proof]
#[kani::unwind(17)]
pub(crate) fn bnd_name_label_access() {
    let a = RefName::any();
    let n = a.name();
    assert!(n.len() == a.k + 1);
    assert!(same(n.wire_repr(), a.wire()));
    assert!(n.is_root() == (a.k == 0));
    let i: usize = kani::any();
    kani::assume(i <= a.k + 1);
    if i <= a.k {
        assert!(same(n[i].octets(), a.label(i)));
        assert!(n[i].is_null() == (i == a.k));
    }
    let off = if i <= a.k { a.offset(i) } else { a.wire_len };
    assert!(same(n.wire_repr_to(i), &a.wire()[..off]));
    assert!(same(n.wire_repr_from(i), &a.wire()[off..]));
    // the iterator yields the labels in order, then stops
    let mut it = n.labels();
    let mut j = 0;
    while j < NL + 1 {
        if j <= a.k {
            match it.next() {
                Some(l) => assert!(same(l.octets(), a.label(j))),
                None => assert!(false),
            }
        }
        j += 1;
    }
    assert!(it.next().is_none());
}

/// [C16.lowercase] `make_ascii_lowercase` folds the label octets in place and
/// leaves the structure (label count, offsets, length octets) alone.
#[kani::proof]
#[kani::unwind(17)]
pub(crate) fn bnd_name_make_ascii_lowercase() {
    let mut a = RefName::any();
    let before = a.buf;
    a.name_mut().make_ascii_lowercase();
    let mut i = 0;
    while i < NBUF {
        if i < a.wire_at {
            assert!(a.buf[i] == before[i]);
        } else if i < a.wire_at + a.wire_len {
            assert!(a.buf[i] == fold(before[i]));
        }
        i += 1;
    }
}

// ---------------------------------------------------------------------
// Laws of the reference order itself (pure; closes the chain
// cmp == ref_label_cmp, eq == ref_label_eq  =>  cmp==Equal <=> eq, antisymmetry
// at the full 63-octet bound without a second pass through the crate code).
// ---------------------------------------------------------------------

#[kani::proof]
#[kani::unwind(65)]
pub(crate) fn full_ref_label_order_laws() {
    let (ba, bb): ([u8; L], [u8; L]) = (kani::any(), kani::any());
    let (na, nb): (usize, usize) = (kani::any(), kani::any());
    kani::assume(na <= L && nb <= L);
    let (a, b) = (&ba[..na], &bb[..nb]);
    let c = ref_label_cmp(a, b);
    assert!((c == Ordering::Equal) == ref_label_eq(a, b));
    assert!(ref_label_cmp(b, a) == c.reverse());
}

// ---------------------------------------------------------------------
// Text form: BOUNDED cross-checks on the real crate, including the real
// NameBuilder and the unsafe `new_boxed_name` allocation (which the Verus
// units name_builder / name_text only cover through its contract).
// ---------------------------------------------------------------------

/// Text buffer for names.
pub(crate) struct NTxt {
    b: [u8; 40],
    n: usize,
}
impl NTxt {
    fn new() -> Self {
        NTxt { b: [0; 40], n: 0 }
    }
    fn as_str(&self) -> &str {
        // only ASCII octets are ever stored
        unsafe { core::str::from_utf8_unchecked(&self.b[..self.n]) }
    }
}
impl core::fmt::Write for NTxt {
    fn write_str(&mut self, s: &str) -> core::fmt::Result {
        for &c in s.as_bytes() {
            if self.n >= 40 {
                return Err(core::fmt::Error);
            }
            self.b[self.n] = c;
            self.n += 1;
        }
        Ok(())
    }
}

/// Wire buffer of the reference text parser.
const RW: usize = 16;

fn is_digit(c: u8) -> bool {
    b'0' <= c && c <= b'9'
}

/// RFC 1035 5.1 / RFC 4343 2.1 reference: the wire form the ASCII text `t`
/// denotes, if it is an absolute name (labels 1..=63 octets, name <= 255; for
/// the short texts of the harness neither limit can be reached).
fn ref_text_name(t: &[u8], max: usize) -> Option<([u8; RW], usize)> {
    let mut w = [0u8; RW];
    if t.is_empty() {
        return None;
    }
    if t.len() == 1 && t[0] == b'.' {
        return Some((w, 1));
    }
    let mut wl = 0usize; // octets of closed labels
    let mut cur = 0usize; // octets of the open label (stored after its length octet)
    let mut i = 0usize;
    let mut steps = 0usize;
    while steps < max {
        if i >= t.len() {
            break;
        }
        let c = t[i];
        if c == b'\\' {
            if i + 1 >= t.len() {
                return None;
            }
            let d = t[i + 1];
            if is_digit(d) {
                if i + 3 >= t.len() || !is_digit(t[i + 2]) || !is_digit(t[i + 3]) {
                    return None;
                }
                let v = 100 * (d - b'0') as u32 + 10 * (t[i + 2] - b'0') as u32 + (t[i + 3] - b'0') as u32;
                if v > 255 {
                    return None;
                }
                w[wl + 1 + cur] = v as u8;
                cur += 1;
                i += 4;
            } else {
                w[wl + 1 + cur] = d;
                cur += 1;
                i += 2;
            }
        } else if c == b'.' {
            if cur == 0 {
                return None;
            }
            w[wl] = cur as u8;
            wl += 1 + cur;
            cur = 0;
            i += 1;
        } else if c >= 128 {
            return None;
        } else {
            w[wl + 1 + cur] = c;
            cur += 1;
            i += 1;
        }
        steps += 1;
    }
    if cur != 0 {
        return None;
    }
    w[wl] = 0;
    Some((w, wl + 1))
}

/// Longest text of the from_str harness.
const TL: usize = 5;

/// [C16.text_accepts] for EVERY ASCII text of <= TL octets (incl. '.', '\\',
/// digits, space, NUL) `"..".parse::<Box<Name>>()` succeeds exactly when the
/// reference decoder does and yields that wire form.
#[kani::proof]
#[kani::unwind(8)]
pub(crate) fn bnd_name_from_str_matches_reference() {
    let mut t = NTxt::new();
    let n: usize = kani::any();
    kani::assume(n <= TL);
    let mut i = 0;
    while i < TL {
        if i < n {
            let c: u8 = kani::any();
            kani::assume(c < 128);
            t.b[i] = c;
        }
        i += 1;
    }
    t.n = n;
    let want = ref_text_name(&t.b[..n], TL);
    match t.as_str().parse::<Box<Name>>() {
        Ok(name) => match want {
            Some((w, wl)) => assert!(name.wire_repr() == &w[..wl]),
            None => assert!(false),
        },
        Err(_) => assert!(want.is_none()),
    }
}

// NOTE: a Display -> FromStr round-trip harness (`write!` of a Name into a fixed
// buffer, then `parse::<Box<Name>>()`) was tried with <= 2 labels x 1 octet and
// with 1 label x 1 octet; CBMC did not finish within 25 / 15 minutes
// (core::fmt `{:03}` padding + the DST allocation), so it was removed.  The
// rendering half of C16 is therefore NOT covered.

/// [C16.superdomain] `superdomain(skip)` is `None` iff there are not enough
/// labels, else the name made of the labels from `skip` on (real allocation).
#[kani::proof]
#[kani::unwind(17)]
pub(crate) fn bnd_name_superdomain() {
    let a = RefName::any();
    let skip: usize = kani::any();
    kani::assume(skip <= a.k + 2);
    match a.name().superdomain(skip) {
        None => assert!(skip > a.k),
        Some(sup) => {
            assert!(skip <= a.k);
            assert!(sup.len() == a.k + 1 - skip);
            assert!(sup.wire_repr() == &a.wire()[a.offset(skip)..]);
            assert!(sup[0].octets() == a.label(skip));
        }
    }
}

/// [C16.labelbuf] `LabelBuf` (the HashMap key type) compares and hashes exactly
/// like the `Label` it holds (labels <= 16 octets).
#[kani::proof]
#[kani::unwind(19)]
pub(crate) fn bnd_labelbuf_agrees_with_label_16() {
    let (ba, bb): ([u8; 16], [u8; 16]) = (kani::any(), kani::any());
    let (a, b) = (any_label(&ba), any_label(&bb));
    let (oa, ob) = (a.to_owned(), b.to_owned());
    assert!(oa.octets() == a.octets());
    assert!((oa == ob) == (a == b));
    assert!(oa.cmp(&ob) == a.cmp(b));
    let (mut h1, mut h2) = (Rec::new(), Rec::new());
    a.hash(&mut h1);
    oa.hash(&mut h2);
    assert!(h1.n == h2.n);
    let mut i = 0;
    while i < 17 {
        assert!(h1.b[i] == h2.b[i]);
        i += 1;
    }
}
