//! Kani harnesses for unit names (see /verif/notes/AGENT-BRIEF.md for naming: full_*, bnd_*, cex_*).
//! Property C16: domain-name text form, equality, ordering, hashing.
#![allow(unused_imports, dead_code)]

use core::cmp::Ordering;
use core::hash::{Hash, Hasher};
use core::str::FromStr;

use crate::name::{Error, Label, LabelBuf, Name, NameBuilder};

// ---------------------------------------------------------------------
// Reference model (RFC 1034 3.1 / RFC 4343: ASCII case-insensitive;
// RFC 4034 6.1: canonical order).  Written from the RFCs.
// ---------------------------------------------------------------------

/// RFC 4343 section 3: only the octets 0x41..=0x5A fold, to 0x61..=0x7A.
fn fold(c: u8) -> u8 {
    if 0x41 <= c && c <= 0x5a {
        c + 0x20
    } else {
        c
    }
}

/// Same length and equal octet by octet after case folding.
fn ref_label_eq(a: &[u8], b: &[u8]) -> bool {
    if a.len() != b.len() {
        return false;
    }
    let mut i = 0;
    while i < a.len() {
        if fold(a[i]) != fold(b[i]) {
            return false;
        }
        i += 1;
    }
    true
}

/// RFC 4034 6.1: labels compare as unsigned left-justified octet strings with
/// upper-case US-ASCII letters treated as lower case; the absence of an octet
/// sorts before a zero octet.
fn ref_label_cmp(a: &[u8], b: &[u8]) -> Ordering {
    let mut i = 0;
    loop {
        if i >= a.len() && i >= b.len() {
            return Ordering::Equal;
        }
        if i >= a.len() {
            return Ordering::Less;
        }
        if i >= b.len() {
            return Ordering::Greater;
        }
        let (x, y) = (fold(a[i]), fold(b[i]));
        if x < y {
            return Ordering::Less;
        }
        if x > y {
            return Ordering::Greater;
        }
        i += 1;
    }
}

/// Largest label (type bound of `Label`).
const L: usize = 63;

/// A hasher that records the octets it is fed.
pub(crate) struct Rec {
    b: [u8; 80],
    n: usize,
}
impl Rec {
    fn new() -> Self {
        Rec { b: [0; 80], n: 0 }
    }
}
impl Hasher for Rec {
    fn finish(&self) -> u64 {
        0
    }
    fn write(&mut self, bytes: &[u8]) {
        for &x in bytes {
            assert!(self.n < 80);
            self.b[self.n] = x;
            self.n += 1;
        }
    }
}

fn any_label(buf: &[u8; L]) -> &Label {
    let n: usize = kani::any();
    kani::assume(n <= L);
    match <&Label>::try_from(&buf[..n]) {
        Ok(l) => l,
        Err(_) => unreachable!(),
    }
}

// ---------------------------------------------------------------------
// Label: complete by the type bound (labels are <= 63 octets).
// ---------------------------------------------------------------------

/// [C16.label_eq] `Label::eq` is exactly ASCII-case-insensitive octet equality.
#[kani::proof]
#[kani::unwind(65)]
pub(crate) fn full_label_eq_is_ascii_ci() {
    let (ba, bb): ([u8; L], [u8; L]) = (kani::any(), kani::any());
    let (a, b) = (any_label(&ba), any_label(&bb));
    assert!((a == b) == ref_label_eq(a.octets(), b.octets()));
}

/// [C16.label_cmp] `Label::cmp` is the RFC 4034 6.1 canonical label order
/// (a total order: the reference is the lexicographic order of the folded
/// octet strings), and `partial_cmp` agrees with it.
#[kani::proof]
#[kani::unwind(65)]
pub(crate) fn full_label_cmp_is_canonical() {
    let (ba, bb): ([u8; L], [u8; L]) = (kani::any(), kani::any());
    let (a, b) = (any_label(&ba), any_label(&bb));
    let c = a.cmp(b);
    assert!(c == ref_label_cmp(a.octets(), b.octets()));
    assert!(a.partial_cmp(b) == Some(c));
}

/// [C16.label_cmp] ordering is consistent with equality: `cmp == Equal` iff `eq`.
#[kani::proof]
#[kani::unwind(65)]
pub(crate) fn full_label_cmp_equal_iff_eq() {
    let (ba, bb): ([u8; L], [u8; L]) = (kani::any(), kani::any());
    let (a, b) = (any_label(&ba), any_label(&bb));
    assert!((a.cmp(b) == Ordering::Equal) == (a == b));
}

/// [C16.label_cmp] antisymmetry: `b.cmp(a) == a.cmp(b).reverse()`.
#[kani::proof]
#[kani::unwind(65)]
pub(crate) fn full_label_cmp_antisymmetric() {
    let (ba, bb): ([u8; L], [u8; L]) = (kani::any(), kani::any());
    let (a, b) = (any_label(&ba), any_label(&bb));
    assert!(b.cmp(a) == a.cmp(b).reverse());
}

/// [C16.label_hash] The octets a label feeds to a hasher are its length followed
/// by its case-folded octets - hence equal labels feed identical octets, and
/// labels that feed identical octets are equal.
#[kani::proof]
#[kani::unwind(65)]
pub(crate) fn full_label_hash_is_folded_octets() {
    let ba: [u8; L] = kani::any();
    let a = any_label(&ba);
    let mut h = Rec::new();
    a.hash(&mut h);
    assert!(h.n == a.len() + 1);
    assert!(h.b[0] as usize == a.len());
    let mut i = 0;
    while i < a.len() {
        assert!(h.b[i + 1] == fold(a.octets()[i]));
        i += 1;
    }
}

/// [C16.label_hash] direct form: `a == b` implies identical hasher input.
#[kani::proof]
#[kani::unwind(65)]
pub(crate) fn full_label_eq_implies_same_hash_input() {
    let (ba, bb): ([u8; L], [u8; L]) = (kani::any(), kani::any());
    let (a, b) = (any_label(&ba), any_label(&bb));
    if a == b {
        let (mut ha, mut hb) = (Rec::new(), Rec::new());
        a.hash(&mut ha);
        b.hash(&mut hb);
        assert!(ha.n == hb.n);
        let mut i = 0;
        while i < ha.n {
            assert!(ha.b[i] == hb.b[i]);
            i += 1;
        }
    }
}
