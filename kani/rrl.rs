//! Kani harnesses for unit rrl (see /verif/notes/AGENT-BRIEF.md for naming: full_*, bnd_*, cex_*).
//!
//! `Rrl`, its fields and the fields of `RrlParams` / `ReceivedInfo` are private to
//! `crate::server`, so from this module (a child of the crate root) only the public
//! API is reachable.  The contracts of the private functions are proved by Verus
//! on the extracted bodies (unit `rrl`); the harnesses here are
//!  * full_*: loop-free, full-domain cross-checks of the public parameter API;
//!  * cex_*:  counterexample finder for the refill arithmetic (defect D12).  It
//!            re-states ONE source line and is never counted as proof.
#![allow(unused_imports, dead_code)]
use crate::server::{RrlParamError, RrlParams};

/// C26 (limit = rate x window never overflows): for ALL four u32 arguments,
/// `RrlParams::new` accepts exactly when all are non-zero and every
/// rate x window fits in u32.  Complete: loop-free, full-domain symbolic inputs.
#[kani::proof]
pub(crate) fn full_rrl_params_new_accepts_iff_limits_fit() {
    let noerror: u32 = kani::any();
    let nxdomain: u32 = kani::any();
    let error: u32 = kani::any();
    let window: u32 = kani::any();
    let fits = |r: u32| (r as u64) * (window as u64) <= u32::MAX as u64;
    let expect_ok = noerror != 0 && nxdomain != 0 && error != 0 && window != 0
        && fits(noerror) && fits(nxdomain) && fits(error);
    let r = RrlParams::new(noerror, nxdomain, error, window);
    assert!(r.is_ok() == expect_ok);
    match r {
        Ok(_) => {}
        Err(e) => {
            if noerror == 0 { assert!(e == RrlParamError::NoerrorRateIsZero); }
            else if nxdomain == 0 { assert!(e == RrlParamError::NxdomainRateIsZero); }
            else if error == 0 { assert!(e == RrlParamError::ErrorRateIsZero); }
            else if window == 0 { assert!(e == RrlParamError::WindowIsZero); }
            else { assert!(e == RrlParamError::WindowIsTooLargeForRates); }
        }
    }
}

/// C27 (prefix lengths): for ALL u8 lengths the setters accept exactly the valid
/// prefix lengths (<= 32 for IPv4, <= 64 for IPv6) and the size setter rejects
/// exactly 0; no shift overflow / panic.  Complete: loop-free, full-domain.
#[kani::proof]
pub(crate) fn full_rrl_prefix_len_and_size_ranges() {
    let mut p = RrlParams::new(1, 1, 1, 1).unwrap();
    let l4: u8 = kani::any();
    let l6: u8 = kani::any();
    let size: usize = kani::any();
    assert!(p.set_ipv4_prefix_len(l4).is_ok() == (l4 <= 32));
    assert!(p.set_ipv6_prefix_len(l6).is_ok() == (l6 <= 64));
    assert!(p.set_size(size).is_ok() == (size != 0));
}

/// D12 counterexample finder.  Source line (src/server/rrl.rs:378-380):
///     entry.count = entry.count.saturating_sub(rate * since_last_refill.as_secs() as u32);
/// `rate` is any rate RrlParams::new accepts (non-zero u32), `secs` any whole
/// number of seconds a std Duration can hold (u64), `count` any u32.
/// Obligation: the statement does not overflow and yields the token-bucket value
/// max(0, count - rate*secs) computed without wrap-around.  FAILS (expected):
/// Kani prints concrete (rate, secs, count).
#[kani::proof]
pub(crate) fn cex_refill_mul_overflow() {
    let rate: u32 = kani::any();
    kani::assume(rate != 0);
    let secs: u64 = kani::any();
    kani::assume(secs >= 1);
    let count: u32 = kani::any();
    // exactly the source expression (panics on overflow, as in a debug build)
    let got = count.saturating_sub(rate * secs as u32);
    let want = (count as u128).saturating_sub(rate as u128 * secs as u128) as u32;
    assert!(got == want);
}

/// Same line with release-build semantics (wrapping multiply): the value is wrong
/// even when nothing panics.
#[kani::proof]
pub(crate) fn cex_refill_wrapping_value() {
    let rate: u32 = kani::any();
    kani::assume(rate != 0);
    let secs: u64 = kani::any();
    kani::assume(secs >= 1);
    let count: u32 = kani::any();
    let got = count.saturating_sub(rate.wrapping_mul(secs as u32));
    let want = (count as u128).saturating_sub(rate as u128 * secs as u128) as u32;
    assert!(got == want);
}
