//! Kani harnesses for unit codes (see /verif/notes/AGENT-BRIEF.md for naming: full_*, bnd_*, cex_*).
//! Property C17: TYPE/CLASS/QTYPE/QCLASS/opcode/RCODE codes and their text forms.
#![allow(unused_imports, dead_code)]

use core::str::FromStr;

use crate::class::Class;
use crate::message::{ExtendedRcode, Opcode, Qclass, Qtype, Rcode};
use crate::rr::{Ttl, Type};

// ---------------------------------------------------------------------
// Numeric conversions: loop-free, full domain (complete).
// ---------------------------------------------------------------------

/// [C17.opcode] `Opcode::try_from(u8)` accepts exactly the 4-bit values and
/// keeps the value.
#[kani::proof]
pub(crate) fn full_opcode_try_from_u8() {
    let v: u8 = kani::any();
    match Opcode::try_from(v) {
        Ok(op) => {
            assert!(v < 16);
            assert!(u8::from(op) == v);
        }
        Err(_) => assert!(v >= 16),
    }
}

/// [C17.rcode] `Rcode::try_from(u8)` accepts exactly the 4-bit values and
/// keeps the value.
#[kani::proof]
pub(crate) fn full_rcode_try_from_u8() {
    let v: u8 = kani::any();
    match Rcode::try_from(v) {
        Ok(rc) => {
            assert!(v < 16);
            assert!(u8::from(rc) == v);
        }
        Err(_) => assert!(v >= 16),
    }
}

/// [C17.ext_rcode] `Rcode::try_from(ExtendedRcode)` succeeds exactly when the
/// extended RCODE is below 16 and keeps the value; `ExtendedRcode::from(u16)`
/// and `u16::from(ExtendedRcode)` are inverse on all 65536 values.
#[kani::proof]
pub(crate) fn full_rcode_try_from_extended() {
    let v: u16 = kani::any();
    let e = ExtendedRcode::from(v);
    assert!(u16::from(e) == v);
    match Rcode::try_from(e) {
        Ok(rc) => {
            assert!(v < 16);
            assert!(u8::from(rc) as u16 == v);
        }
        Err(_) => assert!(v >= 16),
    }
}

/// [C17.ext_rcode] Every `Rcode` widens to an `ExtendedRcode` below 16 with the
/// same value, and narrowing it again gives the `Rcode` back.
#[kani::proof]
pub(crate) fn full_extended_from_rcode_roundtrip() {
    let v: u8 = kani::any();
    if let Ok(rc) = Rcode::try_from(v) {
        let e = ExtendedRcode::from(rc);
        assert!(u16::from(e) == v as u16);
        assert!(u16::from(e) < 16);
        match Rcode::try_from(e) {
            Ok(back) => assert!(back == rc && u8::from(back) == v),
            Err(_) => assert!(false),
        }
    }
}

/// `Ttl::from(u32)`: RFC 2181 section 8 - values with the top bit set read as 0,
/// all others are kept; the stored value never has the top bit set.
#[kani::proof]
pub(crate) fn full_ttl_from_u32_clamp() {
    let v: u32 = kani::any();
    let t = u32::from(Ttl::from(v));
    if v > 0x7fff_ffff {
        assert!(t == 0);
    } else {
        assert!(t == v);
    }
    assert!(t <= 0x7fff_ffff);
}

/// The 16-bit code wrappers keep every value, and the TYPE<->QTYPE and
/// CLASS<->QCLASS conversions are the identity on the code.
#[kani::proof]
pub(crate) fn full_u16_wrappers_identity() {
    let v: u16 = kani::any();
    assert!(u16::from(Type::from(v)) == v);
    assert!(u16::from(Class::from(v)) == v);
    assert!(u16::from(Qtype::from(v)) == v);
    assert!(u16::from(Qclass::from(v)) == v);
    assert!(u16::from(Qtype::from(Type::from(v))) == v);
    assert!(u16::from(Type::from(Qtype::from(v))) == v);
    assert!(u16::from(Qclass::from(Class::from(v))) == v);
    assert!(u16::from(Class::from(Qclass::from(v))) == v);
}
