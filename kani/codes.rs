//! Kani harnesses for unit codes (see /verif/notes/AGENT-BRIEF.md for naming: full_*, bnd_*, cex_*).
//! Property C17: TYPE/CLASS/QTYPE/QCLASS/opcode/RCODE codes and their text forms.
#![allow(unused_imports, dead_code)]

use core::str::FromStr;

use crate::class::Class;
use crate::message::{ExtendedRcode, Opcode, Qclass, Qtype, Rcode};
use crate::rr::{Ttl, Type};

// ---------------------------------------------------------------------
// Numeric conversions: loop-free, full domain (complete).
// ---------------------------------------------------------------------

/// [C17.opcode] `Opcode::try_from(u8)` accepts exactly the 4-bit values and
/// keeps the value.
#[kani::proof]
pub(crate) fn full_opcode_try_from_u8() {
    let v: u8 = kani::any();
    match Opcode::try_from(v) {
        Ok(op) => {
            assert!(v < 16);
            assert!(u8::from(op) == v);
        }
        Err(_) => assert!(v >= 16),
    }
}

/// [C17.rcode] `Rcode::try_from(u8)` accepts exactly the 4-bit values and
/// keeps the value.
#[kani::proof]
pub(crate) fn full_rcode_try_from_u8() {
    let v: u8 = kani::any();
    match Rcode::try_from(v) {
        Ok(rc) => {
            assert!(v < 16);
            assert!(u8::from(rc) == v);
        }
        Err(_) => assert!(v >= 16),
    }
}

/// [C17.ext_rcode] `Rcode::try_from(ExtendedRcode)` succeeds exactly when the
/// extended RCODE is below 16 and keeps the value; `ExtendedRcode::from(u16)`
/// and `u16::from(ExtendedRcode)` are inverse on all 65536 values.
#[kani::proof]
pub(crate) fn full_rcode_try_from_extended() {
    let v: u16 = kani::any();
    let e = ExtendedRcode::from(v);
    assert!(u16::from(e) == v);
    match Rcode::try_from(e) {
        Ok(rc) => {
            assert!(v < 16);
            assert!(u8::from(rc) as u16 == v);
        }
        Err(_) => assert!(v >= 16),
    }
}

/// [C17.ext_rcode] Every `Rcode` widens to an `ExtendedRcode` below 16 with the
/// same value, and narrowing it again gives the `Rcode` back.
#[kani::proof]
pub(crate) fn full_extended_from_rcode_roundtrip() {
    let v: u8 = kani::any();
    if let Ok(rc) = Rcode::try_from(v) {
        let e = ExtendedRcode::from(rc);
        assert!(u16::from(e) == v as u16);
        assert!(u16::from(e) < 16);
        match Rcode::try_from(e) {
            Ok(back) => assert!(back == rc && u8::from(back) == v),
            Err(_) => assert!(false),
        }
    }
}

/// `Ttl::from(u32)`: RFC 2181 section 8 - values with the top bit set read as 0,
/// all others are kept; the stored value never has the top bit set.
#[kani::proof]
pub(crate) fn full_ttl_from_u32_clamp() {
    let v: u32 = kani::any();
    let t = u32::from(Ttl::from(v));
    if v > 0x7fff_ffff {
        assert!(t == 0);
    } else {
        assert!(t == v);
    }
    assert!(t <= 0x7fff_ffff);
}

/// The 16-bit code wrappers keep every value, and the TYPE<->QTYPE and
/// CLASS<->QCLASS conversions are the identity on the code.
#[kani::proof]
pub(crate) fn full_u16_wrappers_identity() {
    let v: u16 = kani::any();
    assert!(u16::from(Type::from(v)) == v);
    assert!(u16::from(Class::from(v)) == v);
    assert!(u16::from(Qtype::from(v)) == v);
    assert!(u16::from(Qclass::from(v)) == v);
    assert!(u16::from(Qtype::from(Type::from(v))) == v);
    assert!(u16::from(Type::from(Qtype::from(v))) == v);
    assert!(u16::from(Qclass::from(Class::from(v))) == v);
    assert!(u16::from(Class::from(Qclass::from(v))) == v);
}

// ---------------------------------------------------------------------
// Text forms.  Reference tables written from the IANA registry / RFC 1035
// section 3.2.2-3.2.5, RFC 3596, RFC 2782, RFC 6891, RFC 8945, RFC 1995,
// RFC 2136 - not from the code.
// ---------------------------------------------------------------------

const TYPE_TABLE: [(&str, u16); 20] = [
    ("A", 1), ("NS", 2), ("MD", 3), ("MF", 4), ("CNAME", 5), ("SOA", 6), ("MB", 7), ("MG", 8),
    ("MR", 9), ("NULL", 10), ("WKS", 11), ("PTR", 12), ("HINFO", 13), ("MINFO", 14), ("MX", 15),
    ("TXT", 16), ("AAAA", 28), ("SRV", 33), ("OPT", 41), ("TSIG", 250),
];
const QTYPE_ONLY_TABLE: [(&str, u16); 6] =
    [("IXFR", 251), ("AXFR", 252), ("MAILB", 253), ("MAILA", 254), ("ANY", 255), ("*", 255)];
const CLASS_TABLE: [(&str, u16); 3] = [("IN", 1), ("CH", 3), ("HS", 4)];
const QCLASS_ONLY_TABLE: [(&str, u16); 3] = [("NONE", 254), ("ANY", 255), ("*", 255)];

/// Longest text the harnesses build ("TYPE" + 6 digits, "CLASS" + 5 digits).
const MAXTXT: usize = 10;

/// A small fixed text buffer (no allocation, so CBMC stays small).
pub(crate) struct Txt {
    b: [u8; 16],
    n: usize,
}

impl Txt {
    fn new() -> Self {
        Txt { b: [0; 16], n: 0 }
    }
    fn push(&mut self, c: u8) {
        assert!(self.n < 16);
        self.b[self.n] = c;
        self.n += 1;
    }
    /// All octets pushed are ASCII, so this is valid UTF-8.
    fn as_str(&self) -> &str {
        unsafe { core::str::from_utf8_unchecked(&self.b[..self.n]) }
    }
}

impl core::fmt::Write for Txt {
    fn write_str(&mut self, s: &str) -> core::fmt::Result {
        for &c in s.as_bytes() {
            if self.n >= 16 {
                return Err(core::fmt::Error);
            }
            self.b[self.n] = c;
            self.n += 1;
        }
        Ok(())
    }
}

/// `word` with every ASCII letter put in an arbitrary (symbolic) case.
fn any_case(out: &mut Txt, word: &[u8]) {
    for &c in word {
        let lower: bool = kani::any();
        out.push(if lower { c.to_ascii_lowercase() } else { c.to_ascii_uppercase() });
    }
}

/// Appends 1..=max_digits symbolic decimal digits (leading zeros allowed) and
/// returns their value.
fn any_decimal(out: &mut Txt, max_digits: usize) -> u32 {
    let k: usize = kani::any();
    kani::assume(1 <= k && k <= max_digits);
    let mut value: u32 = 0;
    let mut i = 0;
    while i < max_digits {
        if i < k {
            let d: u8 = kani::any();
            kani::assume(d <= 9);
            out.push(b'0' + d);
            value = value * 10 + d as u32;
        }
        i += 1;
    }
    value
}

fn is_ok_type(r: Result<Type, &'static str>, code: u16) -> bool {
    match r {
        Ok(t) => u16::from(t) == code,
        Err(_) => false,
    }
}
fn is_ok_class(r: Result<Class, &'static str>, code: u16) -> bool {
    match r {
        Ok(t) => u16::from(t) == code,
        Err(_) => false,
    }
}
fn is_ok_qtype(r: Result<Qtype, &'static str>, code: u16) -> bool {
    match r {
        Ok(t) => u16::from(t) == code,
        Err(_) => false,
    }
}
fn is_ok_qclass(r: Result<Qclass, &'static str>, code: u16) -> bool {
    match r {
        Ok(t) => u16::from(t) == code,
        Err(_) => false,
    }
}

// ---- (i) every mnemonic, in every mix of upper and lower case ----------

/// [C17.mnemonic_ci] every TYPE mnemonic in every case mix parses to its code.
/// Complete: the domain (20 mnemonics x all 2^len case masks) is covered.
#[kani::proof]
#[kani::unwind(8)]
pub(crate) fn full_type_mnemonic_any_case() {
    let i: usize = kani::any();
    kani::assume(i < TYPE_TABLE.len());
    let (word, code) = TYPE_TABLE[i];
    let mut t = Txt::new();
    any_case(&mut t, word.as_bytes());
    assert!(is_ok_type(Type::from_str(t.as_str()), code));
}

/// [C17.mnemonic_ci] CLASS mnemonics, every case mix.
#[kani::proof]
#[kani::unwind(8)]
pub(crate) fn full_class_mnemonic_any_case() {
    let i: usize = kani::any();
    kani::assume(i < CLASS_TABLE.len());
    let (word, code) = CLASS_TABLE[i];
    let mut t = Txt::new();
    any_case(&mut t, word.as_bytes());
    assert!(is_ok_class(Class::from_str(t.as_str()), code));
}

/// [C17.mnemonic_ci] QTYPE mnemonics (its own six and the 20 TYPE ones), every case mix.
#[kani::proof]
#[kani::unwind(8)]
pub(crate) fn full_qtype_mnemonic_any_case() {
    let own: bool = kani::any();
    let i: usize = kani::any();
    let (word, code) = if own {
        kani::assume(i < QTYPE_ONLY_TABLE.len());
        QTYPE_ONLY_TABLE[i]
    } else {
        kani::assume(i < TYPE_TABLE.len());
        TYPE_TABLE[i]
    };
    let mut t = Txt::new();
    any_case(&mut t, word.as_bytes());
    assert!(is_ok_qtype(Qtype::from_str(t.as_str()), code));
}

/// [C17.mnemonic_ci] QCLASS mnemonics (its own three and the CLASS ones), every case mix.
#[kani::proof]
#[kani::unwind(8)]
pub(crate) fn full_qclass_mnemonic_any_case() {
    let own: bool = kani::any();
    let i: usize = kani::any();
    let (word, code) = if own {
        kani::assume(i < QCLASS_ONLY_TABLE.len());
        QCLASS_ONLY_TABLE[i]
    } else {
        kani::assume(i < CLASS_TABLE.len());
        CLASS_TABLE[i]
    };
    let mut t = Txt::new();
    any_case(&mut t, word.as_bytes());
    assert!(is_ok_qclass(Qclass::from_str(t.as_str()), code));
}

// ---- (ii) RFC 3597 TYPEnnn / CLASSnnn for every 16-bit value ------------

/// [C17.rfc3597] "TYPE" (any case) + 1..=6 decimal digits (leading zeros
/// allowed) parses to the value iff it fits 16 bits - in particular for every
/// n in 0..=65535 the canonical `TYPEn` parses to n.  Same through Qtype.
#[kani::proof]
#[kani::unwind(8)]
pub(crate) fn full_type_rfc3597_every_value() {
    let mut t = Txt::new();
    any_case(&mut t, b"TYPE");
    let v = any_decimal(&mut t, 6);
    let r = Type::from_str(t.as_str());
    let q = Qtype::from_str(t.as_str());
    if v <= 65535 {
        assert!(is_ok_type(r, v as u16));
        assert!(is_ok_qtype(q, v as u16));
    } else {
        assert!(r.is_err());
        assert!(q.is_err());
    }
}

/// [C17.rfc3597] the same for "CLASS" + 1..=5 digits, through Class and Qclass.
#[kani::proof]
#[kani::unwind(8)]
pub(crate) fn full_class_rfc3597_every_value() {
    let mut t = Txt::new();
    any_case(&mut t, b"CLASS");
    let v = any_decimal(&mut t, 5);
    let r = Class::from_str(t.as_str());
    let q = Qclass::from_str(t.as_str());
    if v <= 65535 {
        assert!(is_ok_class(r, v as u16));
        assert!(is_ok_qclass(q, v as u16));
    } else {
        assert!(r.is_err());
        assert!(q.is_err());
    }
}

// ---- (iii) Display -> FromStr round trip for every 16-bit value ----------

/// [C17.roundtrip] for every u16 v: parse(render(Type(v))) == Type(v).  The text
/// is rendered by the real `Display` impl (incl. core::fmt's u16 formatting)
/// into a fixed buffer, so no allocation is involved.
#[kani::proof]
#[kani::unwind(12)]
pub(crate) fn full_type_display_fromstr_roundtrip() {
    use core::fmt::Write;
    let v: u16 = kani::any();
    let mut t = Txt::new();
    assert!(write!(t, "{}", Type::from(v)).is_ok());
    assert!(is_ok_type(Type::from_str(t.as_str()), v));
}

#[kani::proof]
#[kani::unwind(12)]
pub(crate) fn full_class_display_fromstr_roundtrip() {
    use core::fmt::Write;
    let v: u16 = kani::any();
    let mut t = Txt::new();
    assert!(write!(t, "{}", Class::from(v)).is_ok());
    assert!(is_ok_class(Class::from_str(t.as_str()), v));
}

#[kani::proof]
#[kani::unwind(12)]
pub(crate) fn full_qtype_display_fromstr_roundtrip() {
    use core::fmt::Write;
    let v: u16 = kani::any();
    let mut t = Txt::new();
    assert!(write!(t, "{}", Qtype::from(v)).is_ok());
    assert!(is_ok_qtype(Qtype::from_str(t.as_str()), v));
}

#[kani::proof]
#[kani::unwind(12)]
pub(crate) fn full_qclass_display_fromstr_roundtrip() {
    use core::fmt::Write;
    let v: u16 = kani::any();
    let mut t = Txt::new();
    assert!(write!(t, "{}", Qclass::from(v)).is_ok());
    assert!(is_ok_qclass(Qclass::from_str(t.as_str()), v));
}

// ---- (iv) exactness on all ASCII strings of <= 10 octets (bounded) ------

fn ci_eq(a: &[u8], b: &[u8]) -> bool {
    if a.len() != b.len() {
        return false;
    }
    let mut i = 0;
    while i < a.len() {
        if a[i].to_ascii_lowercase() != b[i].to_ascii_lowercase() {
            return false;
        }
        i += 1;
    }
    true
}

/// Reference for the numeric tail: what `u16::from_str` documents - an optional
/// '+' followed by one or more decimal digits whose value fits 16 bits.
fn ref_u16(s: &[u8]) -> Option<u16> {
    let d = if !s.is_empty() && s[0] == b'+' { &s[1..] } else { s };
    if d.is_empty() {
        return None;
    }
    let mut v: u32 = 0;
    let mut i = 0;
    while i < d.len() {
        if !d[i].is_ascii_digit() {
            return None;
        }
        v = v * 10 + (d[i] - b'0') as u32;
        if v > 65535 {
            return None;
        }
        i += 1;
    }
    Some(v as u16)
}

fn ref_lookup(s: &[u8], table: &[(&str, u16)]) -> Option<u16> {
    let mut i = 0;
    while i < table.len() {
        if ci_eq(s, table[i].0.as_bytes()) {
            return Some(table[i].1);
        }
        i += 1;
    }
    None
}

fn ref_generic(s: &[u8], prefix: &[u8]) -> Option<u16> {
    if s.len() >= prefix.len() && ci_eq(&s[..prefix.len()], prefix) {
        ref_u16(&s[prefix.len()..])
    } else {
        None
    }
}

fn any_ascii(out: &mut Txt, max: usize) {
    let n: usize = kani::any();
    kani::assume(n <= max);
    let mut i = 0;
    while i < max {
        if i < n {
            let c: u8 = kani::any();
            kani::assume(c < 128);
            out.push(c);
        }
        i += 1;
    }
}

/// For EVERY ASCII string of <= 10 octets, `Class::from_str`/`Qclass::from_str`
/// return exactly what the reference says (mnemonic, CLASSnnn, or error).
/// Bounded: strings longer than 10 octets are outside.
#[kani::proof]
#[kani::unwind(12)]
pub(crate) fn bnd_class_fromstr_exact_len10() {
    let mut t = Txt::new();
    any_ascii(&mut t, MAXTXT);
    let s = t.as_str();
    let want_c = ref_lookup(s.as_bytes(), &CLASS_TABLE).or(ref_generic(s.as_bytes(), b"CLASS"));
    let want_q = ref_lookup(s.as_bytes(), &QCLASS_ONLY_TABLE).or(want_c);
    match Class::from_str(s) {
        Ok(c) => assert!(want_c == Some(u16::from(c))),
        Err(_) => assert!(want_c.is_none()),
    }
    match Qclass::from_str(s) {
        Ok(c) => assert!(want_q == Some(u16::from(c))),
        Err(_) => assert!(want_q.is_none()),
    }
}

/// The same for `Type::from_str`/`Qtype::from_str`.
#[kani::proof]
#[kani::unwind(22)]
pub(crate) fn bnd_type_fromstr_exact_len10() {
    let mut t = Txt::new();
    any_ascii(&mut t, MAXTXT);
    let s = t.as_str();
    let want_t = ref_lookup(s.as_bytes(), &TYPE_TABLE).or(ref_generic(s.as_bytes(), b"TYPE"));
    let want_q = ref_lookup(s.as_bytes(), &QTYPE_ONLY_TABLE).or(want_t);
    match Type::from_str(s) {
        Ok(c) => assert!(want_t == Some(u16::from(c))),
        Err(_) => assert!(want_t.is_none()),
    }
    match Qtype::from_str(s) {
        Ok(c) => assert!(want_q == Some(u16::from(c))),
        Err(_) => assert!(want_q.is_none()),
    }
}
