//! Kani harnesses for unit tsig (see /verif/notes/AGENT-BRIEF.md for naming: full_*, bnd_*, cex_*).
//!
//! Loop-free, full-domain checks of the pure arithmetic pieces of TSIG that are
//! reachable through the crate's public API: the 48-bit `TimeSigned` conversions
//! (src/rr/rdata/tsig.rs), and the output
//! sizes of the two algorithms (against the real hmac/sha crates).  They back
//! the Verus units `tsig_rdata` / `tsig`, whose `SystemTime`, `Duration` and
//! `Hmac::output_size` are trusted stand-ins.  (`check_mac_size` and
//! `check_time` are private to `message::tsig`; they are covered by Verus only.)
#![allow(unused_imports, dead_code)]

use std::time::SystemTime;

use crate::message::tsig::Algorithm;
use crate::rr::rdata::TimeSigned;

const U48_LIMIT: u64 = 1 << 48;

/// `try_from_unix_time` accepts exactly the values below 2^48, stores them
/// big-endian, and `to_unix_time` is its inverse - for every u64.
#[kani::proof]
pub(crate) fn full_time_signed_unix_roundtrip() {
    let seconds: u64 = kani::any();
    match TimeSigned::try_from_unix_time(seconds) {
        Ok(ts) => {
            assert!(seconds < U48_LIMIT);
            assert!(ts.to_unix_time() == seconds);
            let a = ts.as_array();
            let v = ((a[0] as u64) << 40) | ((a[1] as u64) << 32) | ((a[2] as u64) << 24)
                | ((a[3] as u64) << 16) | ((a[4] as u64) << 8) | (a[5] as u64);
            assert!(v == seconds);
            assert!(ts.as_slice().len() == 6);
        }
        Err(_) => assert!(seconds >= U48_LIMIT),
    }
}

/// Every six octets are a TimeSigned below 2^48 and convert back to themselves.
#[kani::proof]
pub(crate) fn full_time_signed_octets_roundtrip() {
    let octets: [u8; 6] = kani::any();
    let ts = TimeSigned::from(octets);
    let secs = ts.to_unix_time();
    assert!(secs < U48_LIMIT);
    let back = TimeSigned::try_from_unix_time(secs).unwrap();
    assert!(<[u8; 6]>::from(back) == octets);
}

// NOTE: harnesses for `TryFrom<SystemTime> for TimeSigned` were tried and removed:
// CBMC does not finish within 10-15 minutes on `SystemTime::checked_add` +
// `duration_since` (std's Timespec arithmetic), neither with a symbolic u64 nor
// with the seconds restricted to within 4 of {0, 2^32, 2^48, 2^62}.  That
// conversion is covered by Verus (unit tsig_rdata) over the std stand-in only.

/// `TryFrom<TimeSigned> for SystemTime` never panics, for any six octets.
#[kani::proof]
pub(crate) fn full_system_time_from_time_signed() {
    let octets: [u8; 6] = kani::any();
    let ts = TimeSigned::from(octets);
    let _ = SystemTime::try_from(ts);
}

/// RFC 8945 section 6 / FIPS 180-4: HMAC-SHA1 gives 20 octets, HMAC-SHA256 32
/// (assumption A2 of prelude/tsig_hmac.rs, checked against the real crates).
#[kani::proof]
pub(crate) fn full_algorithm_output_sizes() {
    assert!(Algorithm::HmacSha1.output_size() == 20);
    assert!(Algorithm::HmacSha256.output_size() == 32);
}
