//! Kani harnesses for unit zone_file (see /verif/notes/AGENT-BRIEF.md for naming: full_*, bnd_*, cex_*).
//! Property C24: the zone-file parser over ARBITRARY input octets (bounded length) terminates
//! without panicking, stops after its first error, and yields only valid records.
//!
//! STATUS: NOT REGISTERED in vq/props.py.  `bnd_zone_file_parser_3` was tried once with
//! `timeout 900` (CBMC still in symbolic execution of Reader::try_fill / memcmp when killed:
//! String/Vec/io::Cursor plus the 16 KiB reader buffer are too heavy).  Kept for reference;
//! totality of the tokenizer stays UNVERIFIED (see notes/agent_reports/validation_zonefile.md).
#![allow(unused_imports, dead_code)]

use std::io::Cursor;

use crate::rr::Type;
use crate::zone_file::{LineContent, Parser};

/// Runs the real `Parser` over `N` symbolic octets.  Every yielded line consumes at least one
/// octet, so at most `N` lines can be produced before `None`; `N + 2` calls are made.
/// Checked: no panic/overflow/OOB anywhere (Kani's built-in checks on the real tokenizer and
/// parsers), the error latch, permitted type, absolute owner, `Rdata::validate` accepts.
fn drive<const N: usize>() {
    let bytes: [u8; N] = kani::any();
    let mut parser = Parser::new(Cursor::new(&bytes[..]));
    let mut errored = false;
    let mut k = 0;
    while k < N + 2 {
        match parser.next() {
            None => {}
            Some(Ok(line)) => {
                assert!(!errored, "a line was yielded after an error");
                if let LineContent::Record(rr) = line.content {
                    assert!(rr.rr_type != Type::NULL && rr.rr_type != Type::OPT && rr.rr_type != Type::TSIG);
                    assert!(rr.rdata.validate(rr.class, rr.rr_type).is_ok());
                    let w = rr.owner.wire_repr();
                    assert!(w.len() >= 1 && w[w.len() - 1] == 0);
                }
            }
            Some(Err(_)) => {
                assert!(!errored, "a second error was yielded");
                errored = true;
            }
        }
        k += 1;
    }
}

/// BOUNDED: all inputs of exactly 3 octets.
#[kani::proof]
#[kani::unwind(12)]
pub(crate) fn bnd_zone_file_parser_3() {
    drive::<3>();
}

/// BOUNDED: all inputs of exactly 6 octets.
#[kani::proof]
#[kani::unwind(16)]
pub(crate) fn bnd_zone_file_parser_6() {
    drive::<6>();
}
