// Kani harness root, compiled inside the real crate through the cfg(kani) hook
// in src/lib.rs:  #[cfg(kani)] #[path = "/verif/kani/lib.rs"] mod verif_kani;
#![allow(dead_code, unused_imports)]

pub(crate) mod name_wire;

/// Trivial harness used by setup to warm the build cache.
#[kani::proof]
fn warm_noop() {
    let x: u8 = kani::any();
    assert!(x as u16 <= 255);
}
