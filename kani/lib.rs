// Kani harness root, compiled inside the real crate through the cfg(kani) hook
// in src/lib.rs:  #[cfg(kani)] #[path = "/verif/kani/lib.rs"] mod verif_kani;
#![allow(dead_code, unused_imports)]

pub(crate) mod name_wire;

/// Trivial harness used by setup to warm the build cache.
#[kani::proof]
fn warm_noop() {
    let x: u8 = kani::any();
    assert!(x as u16 <= 255);
}
pub(crate) mod reader;
pub(crate) mod rdata;
pub(crate) mod rdata_eq;
pub(crate) mod catalog;
pub(crate) mod zone;
pub(crate) mod rrl;
pub(crate) mod writer;
pub(crate) mod codes;
pub(crate) mod names;
pub(crate) mod thread;
pub(crate) mod zones_reload;
pub(crate) mod validation;
pub(crate) mod zone_file;
pub(crate) mod server;
pub(crate) mod query;
pub(crate) mod tsig;
