//! Kani harnesses for unit writer (see /verif/notes/AGENT-BRIEF.md for naming: full_*, bnd_*, cex_*).
//!
//! `Writer::write_compressed_unhinted_name` (src/message/writer.rs:1091-1316: nested closures,
//! take/enumerate/filter_map/fold) is outside Verus's reach; the Verus units ASSUME the contract
//! `compressed_post` for it (units/frag/writer_compress_assumed.vrs).  The harnesses below check
//! that contract on the REAL code through the public API, BOUNDED:
//!   * buffer of 40 octets;
//!   * prior names: the QNAME (bnd_write_compressed_owner*), or the QNAME plus the owner of a
//!     first record (bnd_write_compressed_two_priors): at most 2 prior names;
//!   * names have a FIXED SHAPE -- two one-octet labels (`x.y.`) or one (`x.`) -- and arbitrary
//!     (symbolic) label octets.  (Fully symbolic shapes, i.e. symbolic allocation sizes for the
//!     `Box<Name>` DST, make CBMC run out of time/memory: tried with <= 2 labels x <= 2 octets
//!     and x <= 1 octet, 25 min each.)
//! Checked for the compressee written by write_compressed_unhinted_name:
//!   (1) decoding what was written at the old cursor with an independent RFC 1035 4.1.4
//!       decoder yields the name (ASCII-case-insensitively in standard mode, exactly in
//!       case-preserving mode), and the first chunk ends at the new cursor;
//!   (2) every pointer met while decoding targets the first octet of a label of a name written
//!       earlier (a recorded label start), strictly before the pointer's own position;
//!   (3) the compressed form is never longer than the uncompressed one;
//!   (4) no panic (index, arithmetic, "invalid pointer found during compression").
#![allow(unused_imports, dead_code)]
use crate::class::Class;
use crate::message::writer::{CompressionMode, Hint, HintedName, Writer};
use crate::message::{Qclass, Qtype, Question};
use crate::name::Name;
use crate::rr::{Rdata, Ttl, Type};

/// Bound: non-null labels per symbolic name, octets per label.
const MAXL: usize = 2;
const MAXO: usize = 1;
/// Wire length bound of a symbolic name: MAXL * (1 + MAXO) + 1.
const NB: usize = MAXL * (1 + MAXO) + 1;
const BUF: usize = 40;
/// Upper bound on label starts recorded (header excluded): 3 names * (MAXL + 1).
const MAXSTARTS: usize = 3 * (MAXL + 1);

fn lc(b: u8) -> u8 {
    if b >= b'A' && b <= b'Z' {
        b + 32
    } else {
        b
    }
}

struct Starts {
    at: [usize; MAXSTARTS],
    n: usize,
}

impl Starts {
    fn new() -> Self {
        Starts { at: [0; MAXSTARTS], n: 0 }
    }
    fn push(&mut self, p: usize) {
        if self.n < MAXSTARTS {
            self.at[self.n] = p;
            self.n += 1;
        }
    }
    fn contains(&self, p: usize) -> bool {
        let mut k = 0;
        let mut found = false;
        while k < MAXSTARTS {
            if k < self.n && self.at[k] == p {
                found = true;
            }
            k += 1;
        }
        found
    }
}

/// Independent decoder (RFC 1035 4.1.4) for the name at `start` in `msg[..end]`.
/// Checks (1) and (2) against `expect` (uncompressed wire form) and records the label starts of
/// the first chunk (positions >= start) into `starts` AFTER the checks, so that a pointer can
/// only be justified by an EARLIER name.  Returns the first-chunk length.
fn check_name_at(msg: &[u8], end: usize, start: usize, expect: &[u8], exact: bool, starts: &mut Starts) -> usize {
    let mut pos = start;
    let mut out = 0usize; // octets of `expect` matched so far
    let mut first_chunk_len: Option<usize> = None;
    let mut new_starts = Starts::new();
    let mut steps = 0;
    let mut done = false;
    // at most MAXL + 1 labels plus MAXL + 1 pointer hops
    while steps < 2 * (MAXL + 1) + 1 && !done {
        steps += 1;
        assert!(pos < end);
        let len = msg[pos] as usize;
        if len & 0xc0 == 0xc0 {
            assert!(pos + 1 < end);
            let target = ((len & 0x3f) << 8) | msg[pos + 1] as usize;
            // (2) strictly backwards, to a recorded label start of an earlier name
            assert!(target < pos);
            assert!(starts.contains(target));
            if first_chunk_len.is_none() {
                first_chunk_len = Some(pos + 2 - start);
            }
            pos = target;
        } else {
            assert!(len <= 63);
            if first_chunk_len.is_none() {
                new_starts.push(pos);
            }
            // (1) the label equals the next label of the expected name
            assert!(out < expect.len());
            assert!(expect[out] as usize == len);
            assert!(out + 1 + len <= expect.len());
            assert!(pos + 1 + len <= end);
            let mut k = 0;
            while k < MAXO {
                if k < len {
                    let a = msg[pos + 1 + k];
                    let b = expect[out + 1 + k];
                    if exact {
                        assert!(a == b);
                    } else {
                        assert!(lc(a) == lc(b));
                    }
                }
                k += 1;
            }
            assert!(len <= MAXO);
            out += 1 + len;
            if len == 0 {
                if first_chunk_len.is_none() {
                    first_chunk_len = Some(pos + 1 - start);
                }
                done = true;
            } else {
                pos += 1 + len;
            }
        }
    }
    assert!(done);
    assert!(out == expect.len());
    let mut k = 0;
    while k < MAXSTARTS {
        if k < new_starts.n {
            starts.push(new_starts.at[k]);
        }
        k += 1;
    }
    first_chunk_len.unwrap()
}

fn question(qname: Box<Name>) -> Question {
    Question {
        qname,
        qtype: Qtype::from(1),
        qclass: Qclass::from(1),
    }
}

/// A name of two one-octet labels `x.y.` / one one-octet label `x.` with symbolic octets: the
/// SHAPE is fixed (so every allocation size is concrete for CBMC), the octets are arbitrary.
fn name2(x: u8, y: u8) -> Box<Name> {
    Name::try_from_uncompressed_all(&[1, x, 1, y, 0]).unwrap()
}
fn name1(x: u8) -> Box<Name> {
    Name::try_from_uncompressed_all(&[1, x, 0]).unwrap()
}

/// One prior name (the QNAME `a.b.`, octets symbolic); the compressee is the owner of an answer
/// RR (Hint::None), `c.d.` or `c.` with symbolic octets.
fn owner_against_qname(mode: CompressionMode, owner_labels: usize) {
    let mut buf = [0u8; BUF];
    let qname = name2(kani::any(), kani::any());
    let owner = if owner_labels == 2 { name2(kani::any(), kani::any()) } else { name1(kani::any()) };
    let q = question(qname);
    let mut w = Writer::new(&mut buf, BUF).unwrap();
    w.set_compression_mode(mode);
    w.add_question(&q).unwrap();
    let rdata: &Rdata = (&[1u8, 2, 3, 4]).try_into().unwrap();
    w.add_answer_rr(HintedName::new(Hint::None, &owner), Type::A, Class::IN, Ttl::from(0), rdata, None)
        .unwrap();
    let len = w.finish();

    let mut starts = Starts::new();
    let exact = mode == CompressionMode::CasePreserving;
    let qlen = check_name_at(&buf, len, 12, q.qname.wire_repr(), true, &mut starts);
    assert!(qlen == q.qname.wire_repr().len());
    let owner_at = 12 + qlen + 4;
    let olen = check_name_at(&buf, len, owner_at, owner.wire_repr(), exact, &mut starts);
    // (3)
    assert!(olen <= owner.wire_repr().len());
    // the RR's fixed part and RDATA follow the owner directly
    assert!(len == owner_at + olen + 10 + 4);
    // the interesting paths are reachable: whole-name pointer, label + pointer, no compression
    kani::cover!(olen == 2);
    kani::cover!(olen == 4);
    kani::cover!(olen == owner.wire_repr().len());
}

#[kani::proof]
#[kani::unwind(12)]
#[kani::solver(cadical)]
pub(crate) fn bnd_write_compressed_owner2_standard() {
    owner_against_qname(CompressionMode::Standard, 2);
}

#[kani::proof]
#[kani::unwind(12)]
#[kani::solver(cadical)]
pub(crate) fn bnd_write_compressed_owner1_standard() {
    owner_against_qname(CompressionMode::Standard, 1);
}

#[kani::proof]
#[kani::unwind(12)]
#[kani::solver(cadical)]
pub(crate) fn bnd_write_compressed_owner2_case_preserving() {
    owner_against_qname(CompressionMode::CasePreserving, 2);
}

/// Two prior names (QNAME and the owner of a first record, which also becomes the most recent
/// name... in RDATA is exercised through an NS record): the compressee is the NS target.
#[kani::proof]
#[kani::unwind(12)]
#[kani::solver(cadical)]
pub(crate) fn bnd_write_compressed_two_priors() {
    let mut buf = [0u8; BUF];
    let qname = name2(kani::any(), kani::any());
    let owner = name1(kani::any());
    let target = name2(kani::any(), kani::any());
    let q = question(qname);
    let mut w = Writer::new(&mut buf, BUF).unwrap();
    w.add_question(&q).unwrap();
    let rdata: &Rdata = target.wire_repr().try_into().unwrap();
    w.add_answer_rr(HintedName::new(Hint::None, &owner), Type::NS, Class::IN, Ttl::from(0), rdata, None)
        .unwrap();
    let len = w.finish();

    let mut starts = Starts::new();
    let qlen = check_name_at(&buf, len, 12, q.qname.wire_repr(), true, &mut starts);
    let owner_at = 12 + qlen + 4;
    let olen = check_name_at(&buf, len, owner_at, owner.wire_repr(), false, &mut starts);
    let target_at = owner_at + olen + 10;
    let tlen = check_name_at(&buf, len, target_at, target.wire_repr(), false, &mut starts);
    assert!(tlen <= target.wire_repr().len());
    // RDLENGTH matches the compressed RDATA
    assert!(((buf[target_at - 2] as usize) << 8 | buf[target_at - 1] as usize) == tlen);
    assert!(len == target_at + tlen);
}

/// C12 / D7 cross-check on the real code, complete over its inputs (all payload sizes, all
/// extended RCODEs 0..=4095, loop-free): the finished message carries the extended RCODE --
/// lower four bits in the header, upper eight in the first octet of the OPT TTL field -- and
/// is exactly header + 11-octet OPT record with ARCOUNT 1.
#[kani::proof]
#[kani::unwind(13)]
pub(crate) fn full_opt_ext_rcode_roundtrip() {
    let mut buf = [0u8; 32];
    let size: u16 = kani::any();
    let rcode: u16 = kani::any();
    kani::assume(rcode <= 4095);
    let mut w = Writer::new(&mut buf, 32).unwrap();
    w.set_edns(size).unwrap();
    w.set_extended_rcode(rcode.into()).unwrap();
    assert!(u16::from(w.extended_rcode()) == rcode);
    let len = w.finish();
    assert!(len == 23);
    assert!(buf[10] == 0 && buf[11] == 1);
    assert!(buf[12] == 0 && buf[13] == 0 && buf[14] == 41);
    assert!(buf[15] == (size >> 8) as u8 && buf[16] == (size & 0xff) as u8);
    assert!((buf[3] & 0x0f) as u16 == rcode & 0x0f);
    assert!(buf[17] as u16 == rcode >> 4);
    assert!(buf[18] == 0 && buf[19] == 0 && buf[20] == 0 && buf[21] == 0 && buf[22] == 0);
}
