//! Kani harnesses for unit catalog (see /verif/notes/AGENT-BRIEF.md for naming: full_*, bnd_*, cex_*).
#![allow(unused_imports, dead_code)]
