//! Kani harnesses for unit catalog.
#![allow(unused_imports, dead_code)]
use std::sync::Arc;
use crate::class::Class;
use crate::db::catalog::{Catalog, Entry};
use crate::db::zone::GluePolicy;
use crate::db::{HashMapTreeCatalog, HashMapTreeZone};
use crate::name::Name;

/// std's RandomState seeds itself from the OS, which CBMC cannot execute; a
/// fixed seed is as good as any for a functional check.
pub(crate) fn fixed_random_state() -> std::hash::RandomState {
    unsafe { std::mem::transmute::<[u64; 2], std::hash::RandomState>([1, 2]) }
}

#[kani::proof]
#[kani::unwind(12)]
#[kani::stub(std::hash::RandomState::new, crate::verif_kani::catalog::fixed_random_state)]
pub(crate) fn bnd_catalog_probe() {
    let mut cat: HashMapTreeCatalog<HashMapTreeZone, ()> = HashMapTreeCatalog::new();
    let e: Box<Name> = "e.".parse().unwrap();
    cat.insert(Entry::NotYetLoaded(e.clone(), Class::IN, ()));
    assert!(cat.get(&e, Class::IN).is_some());
}
