//! Kani harnesses for unit catalog (see /verif/notes/AGENT-BRIEF.md for naming: full_*, bnd_*, cex_*).
//!
//! None.  C22 is covered by the Verus unit `catalog`.  A concrete harness for the
//! pruning defect (insert `e.`, insert `a.e.`, remove `a.e.`, get `e.`) and a
//! bounded check of `HashMapTreeCatalog::iter` were tried and dropped: every
//! path goes through `std::collections::HashMap::new()`, whose `RandomState`
//! seeds from the OS (getrandom) - CBMC cannot execute that, and
//! `#[kani::stub(std::sys::random::hashmap_random_keys, ..)]` does not resolve
//! with Kani 0.68 ("unable to find `sys`": the std function is private).
//! The defect is demonstrated natively instead (see
//! /verif/notes/agent_reports/catalog.md, `examples/c22_remove_prune.rs`).
#![allow(unused_imports, dead_code)]
