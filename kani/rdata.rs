//! Kani harnesses for unit rdata (see /verif/notes/AGENT-BRIEF.md for naming: full_*, bnd_*, cex_*).
//!
//! `Rdata::read` (src/rr/rdata/mod.rs) cannot be brought into Verus verbatim
//! (function-local `type` items, fn-pointer typed closures, `Cow`), so its
//! dispatch is checked here on the real code.  The type-specific readers
//! (`read_name_rdata`, `read_ch_a`, `read_soa`, `read_minfo`, `read_mx`,
//! `read_in_srv`) are proved in Verus (unit rdata) and are STUBBED here by
//! recorders, so that the harness sees exactly which reader `read` routes a
//! (class, type) pair to and with which arguments; the validators and
//! `Rdata::validate` are the real ones (`validate` is proved in Verus to be
//! `Ok` exactly for the RFC predicate of its class/type).
#![allow(unused_imports, dead_code, static_mut_refs)]
use std::borrow::Cow;

use crate::class::Class;
use crate::rr::rdata::{Rdata, ReadRdataError};
use crate::rr::Type;

/// Message length bound of the bnd_* harnesses.
const N: usize = 6;

static mut CALLS: u32 = 0;
static mut SEEN_TAG: u8 = 0;
static mut SEEN_CURSOR: usize = 0;
static mut SEEN_RDLEN: u16 = 0;
static mut SEEN_PTR: usize = 0;
static mut SEEN_LEN: usize = 0;

fn record(tag: u8, message: &[u8], cursor: usize, rdlength: u16) -> Result<Box<Rdata>, ReadRdataError> {
    unsafe {
        CALLS += 1;
        SEEN_TAG = tag;
        SEEN_CURSOR = cursor;
        SEEN_RDLEN = rdlength;
        SEEN_PTR = message.as_ptr() as usize;
        SEEN_LEN = message.len();
    }
    if kani::any() {
        Ok(vec![tag].try_into().unwrap())
    } else {
        Err(ReadRdataError::Other)
    }
}

pub(crate) fn stub_read_name_rdata(m: &[u8], c: usize, l: u16) -> Result<Box<Rdata>, ReadRdataError> {
    record(1, m, c, l)
}
pub(crate) fn stub_read_ch_a(m: &[u8], c: usize, l: u16) -> Result<Box<Rdata>, ReadRdataError> {
    record(2, m, c, l)
}
pub(crate) fn stub_read_soa(m: &[u8], c: usize, l: u16) -> Result<Box<Rdata>, ReadRdataError> {
    record(3, m, c, l)
}
pub(crate) fn stub_read_minfo(m: &[u8], c: usize, l: u16) -> Result<Box<Rdata>, ReadRdataError> {
    record(4, m, c, l)
}
pub(crate) fn stub_read_mx(m: &[u8], c: usize, l: u16) -> Result<Box<Rdata>, ReadRdataError> {
    record(5, m, c, l)
}
pub(crate) fn stub_read_in_srv(m: &[u8], c: usize, l: u16) -> Result<Box<Rdata>, ReadRdataError> {
    record(6, m, c, l)
}

/// Which type-specific reader RFC 3597 section 4 (as documented by the crate)
/// prescribes for a class/type pair; 0 = none (RDATA taken as is).
fn expected_reader(class: u16, ty: u16) -> u8 {
    match ty {
        2 | 3 | 4 | 5 | 7 | 8 | 9 | 12 => 1, // NS MD MF CNAME MB MG MR PTR
        1 if class == 3 => 2,                // CH A
        6 => 3,                              // SOA
        14 => 4,                             // MINFO
        15 => 5,                             // MX
        33 if class == 1 => 6,               // IN SRV
        _ => 0,
    }
}

/// BOUNDED (message <= N octets; class, type, cursor, RDLENGTH unrestricted):
/// `Rdata::read` never panics; a pair with embedded compressible names goes to
/// exactly its reader with the arguments unchanged and the reader's result is
/// passed on as `Cow::Owned`; any other pair yields `Cow::Borrowed` of exactly
/// `message[cursor..cursor+rdlength]` iff that range exists and
/// `Rdata::validate(class, type)` accepts it, `UnexpectedEom` iff the range
/// does not exist.
#[kani::proof]
#[kani::stub(crate::rr::rdata::helpers::read_name_rdata, crate::verif_kani::rdata::stub_read_name_rdata)]
#[kani::stub(crate::rr::rdata::Rdata::read_ch_a, crate::verif_kani::rdata::stub_read_ch_a)]
#[kani::stub(crate::rr::rdata::Rdata::read_soa, crate::verif_kani::rdata::stub_read_soa)]
#[kani::stub(crate::rr::rdata::Rdata::read_minfo, crate::verif_kani::rdata::stub_read_minfo)]
#[kani::stub(crate::rr::rdata::Rdata::read_mx, crate::verif_kani::rdata::stub_read_mx)]
#[kani::stub(crate::rr::rdata::Rdata::read_in_srv, crate::verif_kani::rdata::stub_read_in_srv)]
#[kani::unwind(9)]
pub(crate) fn bnd_read_dispatch() {
    let buf: [u8; N] = kani::any();
    let n: usize = kani::any();
    kani::assume(n <= N);
    let msg = &buf[..n];
    let c: u16 = kani::any();
    let t: u16 = kani::any();
    let class = Class::from(c);
    let ty = Type::from(t);
    let cursor: usize = kani::any();
    let rdlength: u16 = kani::any();

    let r = Rdata::read(class, ty, msg, cursor, rdlength);

    let want = expected_reader(c, t);
    let calls = unsafe { CALLS };
    if want != 0 {
        assert!(calls == 1);
        unsafe {
            assert!(SEEN_TAG == want);
            assert!(SEEN_CURSOR == cursor);
            assert!(SEEN_RDLEN == rdlength);
            assert!(SEEN_PTR == msg.as_ptr() as usize);
            assert!(SEEN_LEN == n);
        }
        match r {
            Ok(Cow::Owned(b)) => assert!(b.octets().len() == 1 && b.octets()[0] == want),
            Ok(Cow::Borrowed(_)) => assert!(false),
            Err(e) => assert!(e == ReadRdataError::Other),
        }
    } else {
        assert!(calls == 0);
        let in_range = cursor <= n && (rdlength as usize) <= n - cursor;
        match r {
            Ok(Cow::Borrowed(rd)) => {
                assert!(in_range);
                let want_slice = &msg[cursor..cursor + rdlength as usize];
                assert!(rd.octets().as_ptr() == want_slice.as_ptr());
                assert!(rd.octets().len() == want_slice.len());
                assert!(rd.validate(class, ty).is_ok());
            }
            Ok(Cow::Owned(_)) => assert!(false),
            Err(e) => {
                if !in_range {
                    assert!(e == ReadRdataError::UnexpectedEom);
                } else {
                    let want_slice = &msg[cursor..cursor + rdlength as usize];
                    let rd: &Rdata = want_slice.try_into().unwrap();
                    assert!(rd.validate(class, ty).is_err());
                }
            }
        }
    }
}

fn record_validator(tag: u8, rdata: &Rdata) -> Result<(), ReadRdataError> {
    unsafe {
        CALLS += 1;
        SEEN_TAG = tag;
        SEEN_PTR = rdata.octets().as_ptr() as usize;
        SEEN_LEN = rdata.octets().len();
    }
    if kani::any() {
        Ok(())
    } else {
        Err(ReadRdataError::Other)
    }
}

pub(crate) fn stub_validate_as_in_a(rdata: &Rdata) -> Result<(), ReadRdataError> {
    record_validator(11, rdata)
}
pub(crate) fn stub_validate_as_in_wks(rdata: &Rdata) -> Result<(), ReadRdataError> {
    record_validator(12, rdata)
}
pub(crate) fn stub_validate_as_hinfo(rdata: &Rdata) -> Result<(), ReadRdataError> {
    record_validator(13, rdata)
}
pub(crate) fn stub_validate_as_txt(rdata: &Rdata) -> Result<(), ReadRdataError> {
    record_validator(14, rdata)
}
pub(crate) fn stub_validate_as_in_aaaa(rdata: &Rdata) -> Result<(), ReadRdataError> {
    record_validator(15, rdata)
}
pub(crate) fn stub_validate_as_opt(rdata: &Rdata) -> Result<(), ReadRdataError> {
    record_validator(16, rdata)
}
pub(crate) fn stub_validate_as_tsig(rdata: &Rdata) -> Result<(), ReadRdataError> {
    record_validator(17, rdata)
}

/// Which validator the RFC format table prescribes for a class/type pair that
/// is read without decompression; 0 = none (opaque RDATA).
fn expected_validator(class: u16, ty: u16) -> u8 {
    match ty {
        1 if class == 1 => 11,  // IN A      RFC 1035 3.4.1
        11 if class == 1 => 12, // IN WKS    RFC 1035 3.4.2
        13 => 13,               // HINFO     RFC 1035 3.3.2
        16 => 14,               // TXT       RFC 1035 3.3.14
        28 if class == 1 => 15, // IN AAAA   RFC 3596
        41 => 16,               // OPT       RFC 6891
        250 => 17,              // TSIG      RFC 8945
        _ => 0,
    }
}

/// BOUNDED (message <= 4 octets; class, type, cursor, RDLENGTH unrestricted),
/// loop-free: with every type-specific reader AND validator replaced by a
/// recorder, `Rdata::read` calls exactly the one reader or validator that the
/// format table prescribes for the pair (none for opaque types), hands a
/// validator exactly `message[cursor..cursor+rdlength]`, fails with
/// `UnexpectedEom` without calling a validator when that range does not
/// exist, and passes the callee's verdict on.
#[kani::proof]
#[kani::stub(crate::rr::rdata::helpers::read_name_rdata, crate::verif_kani::rdata::stub_read_name_rdata)]
#[kani::stub(crate::rr::rdata::Rdata::read_ch_a, crate::verif_kani::rdata::stub_read_ch_a)]
#[kani::stub(crate::rr::rdata::Rdata::read_soa, crate::verif_kani::rdata::stub_read_soa)]
#[kani::stub(crate::rr::rdata::Rdata::read_minfo, crate::verif_kani::rdata::stub_read_minfo)]
#[kani::stub(crate::rr::rdata::Rdata::read_mx, crate::verif_kani::rdata::stub_read_mx)]
#[kani::stub(crate::rr::rdata::Rdata::read_in_srv, crate::verif_kani::rdata::stub_read_in_srv)]
#[kani::stub(crate::rr::rdata::Rdata::validate_as_in_a, crate::verif_kani::rdata::stub_validate_as_in_a)]
#[kani::stub(crate::rr::rdata::Rdata::validate_as_in_wks, crate::verif_kani::rdata::stub_validate_as_in_wks)]
#[kani::stub(crate::rr::rdata::Rdata::validate_as_hinfo, crate::verif_kani::rdata::stub_validate_as_hinfo)]
#[kani::stub(crate::rr::rdata::Rdata::validate_as_txt, crate::verif_kani::rdata::stub_validate_as_txt)]
#[kani::stub(crate::rr::rdata::Rdata::validate_as_in_aaaa, crate::verif_kani::rdata::stub_validate_as_in_aaaa)]
#[kani::stub(crate::rr::rdata::Rdata::validate_as_opt, crate::verif_kani::rdata::stub_validate_as_opt)]
#[kani::stub(crate::rr::rdata::Rdata::validate_as_tsig, crate::verif_kani::rdata::stub_validate_as_tsig)]
pub(crate) fn bnd_read_routing() {
    let buf: [u8; 4] = kani::any();
    let n: usize = kani::any();
    kani::assume(n <= 4);
    let msg = &buf[..n];
    let c: u16 = kani::any();
    let t: u16 = kani::any();
    let cursor: usize = kani::any();
    let rdlength: u16 = kani::any();

    let r = Rdata::read(Class::from(c), Type::from(t), msg, cursor, rdlength);

    let calls = unsafe { CALLS };
    let tag = unsafe { SEEN_TAG };
    let reader = expected_reader(c, t);
    let validator = expected_validator(c, t);
    let in_range = cursor <= n && (rdlength as usize) <= n - cursor;
    if reader != 0 {
        assert!(calls == 1 && tag == reader);
        unsafe {
            assert!(SEEN_CURSOR == cursor && SEEN_RDLEN == rdlength);
            assert!(SEEN_PTR == msg.as_ptr() as usize && SEEN_LEN == n);
        }
        assert!(!matches!(r, Ok(Cow::Borrowed(_))));
    } else if !in_range {
        assert!(calls == 0);
        assert!(matches!(r, Err(ReadRdataError::UnexpectedEom)));
    } else {
        let want = &msg[cursor..cursor + rdlength as usize];
        if validator != 0 {
            assert!(calls == 1 && tag == validator);
            unsafe {
                assert!(SEEN_PTR == want.as_ptr() as usize && SEEN_LEN == want.len());
            }
        } else {
            assert!(calls == 0);
            assert!(r.is_ok());
        }
        match r {
            Ok(Cow::Borrowed(rd)) => {
                assert!(rd.octets().as_ptr() == want.as_ptr() && rd.octets().len() == want.len());
            }
            Ok(Cow::Owned(_)) => assert!(false),
            Err(e) => assert!(e == ReadRdataError::Other),
        }
    }
}

/// Counterexample finder for `helpers::prepare_to_read_rdata` (Verus obligation
/// "possible arithmetic overflow" in `cursor + rdlength as usize`): reading an
/// IN A record from a 4-octet message with ANY cursor and RDLENGTH must not panic.
#[kani::proof]
pub(crate) fn cex_read_any_cursor_total() {
    let buf: [u8; 4] = kani::any();
    let cursor: usize = kani::any();
    let rdlength: u16 = kani::any();
    let _ = Rdata::read(Class::IN, Type::A, &buf[..], cursor, rdlength);
}
