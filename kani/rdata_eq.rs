//! Kani harnesses for unit rdata_eq (see /verif/notes/AGENT-BRIEF.md for naming: full_*, bnd_*, cex_*).
//! Secondary to the Verus units rdata_eq / rdata_set (property C19); bounded,
//! never counted as proof.
#![allow(unused_imports, dead_code)]
use crate::class::Class;
use crate::rr::{Rdata, RdataSetOwned, Type};

/// Counterexample finder for D10: `Rdata::equals` must be symmetric for a
/// single-name type (NS), here for any two RDATA of at most 2 octets.
/// (Fails on the unfixed tree with e.g. a = [0], b = [0, x].)
#[kani::proof]
#[kani::unwind(4)]
pub(crate) fn cex_equals_ns_symmetric() {
    const N: usize = 2;
    let a: [u8; N] = kani::any();
    let b: [u8; N] = kani::any();
    let la: usize = kani::any();
    let lb: usize = kani::any();
    kani::assume(la <= N && lb <= N);
    let ra: &Rdata = (&a[..la]).try_into().unwrap();
    let rb: &Rdata = (&b[..lb]).try_into().unwrap();
    assert_eq!(ra.equals(rb, Class::IN, Type::NS), rb.equals(ra, Class::IN, Type::NS));
}

/// `RdataSetOwned::from_iter` on the GENERIC original (Verus proves the body
/// for `I = Vec<&Rdata>`; here `I = [&Rdata; 2]`) for a type compared octet-wise
/// (A): the set iterates the first member of each equality class in insertion
/// order and nothing else.  Bound: 2 members of exactly 1 octet each.
#[kani::proof]
#[kani::unwind(4)]
pub(crate) fn bnd_from_iter_bitwise_first_of_class() {
    let d: [[u8; 1]; 2] = kani::any();
    let r0: &Rdata = (&d[0][..]).try_into().unwrap();
    let r1: &Rdata = (&d[1][..]).try_into().unwrap();
    let set = RdataSetOwned::from_iter(Class::IN, Type::A, [r0, r1]).unwrap();
    let mut it = set.iter();
    assert!(it.next().unwrap().octets()[0] == d[0][0]);
    if d[1][0] != d[0][0] {
        assert!(it.next().unwrap().octets()[0] == d[1][0]);
    }
    assert!(it.next().is_none());
}
