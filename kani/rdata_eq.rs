//! Kani harnesses for unit rdata_eq (see /verif/notes/AGENT-BRIEF.md for naming: full_*, bnd_*, cex_*).
//! Secondary to the Verus units rdata_eq / rdata_set (property C19); bounded,
//! never counted as proof.
#![allow(unused_imports, dead_code)]
use crate::class::Class;
use crate::rr::{Rdata, RdataSetOwned, Type};

/// Counterexample finder for D10: `Rdata::equals` must be symmetric for a
/// single-name type (NS), here for any two RDATA of at most 4 octets.
/// (Fails on the unfixed tree with e.g. a = [0], b = [0, x].)
#[kani::proof]
#[kani::unwind(6)]
pub(crate) fn cex_equals_ns_symmetric() {
    const N: usize = 4;
    let a: [u8; N] = kani::any();
    let b: [u8; N] = kani::any();
    let la: usize = kani::any();
    let lb: usize = kani::any();
    kani::assume(la <= N && lb <= N);
    let ra: &Rdata = (&a[..la]).try_into().unwrap();
    let rb: &Rdata = (&b[..lb]).try_into().unwrap();
    assert_eq!(ra.equals(rb, Class::IN, Type::NS), rb.equals(ra, Class::IN, Type::NS));
}

/// `RdataSetOwned::from_iter` (not extracted for Verus: generic IntoIterator +
/// Option::get_or_insert) for a type compared octet-wise (A): three RDATA of at
/// most 2 octets each; the set iterates the first member of each equality class
/// in insertion order and nothing else.  Bound: 3 members, <= 2 octets each.
#[kani::proof]
#[kani::unwind(8)]
pub(crate) fn bnd_from_iter_bitwise_first_of_class() {
    let d: [[u8; 2]; 3] = kani::any();
    let l: [usize; 3] = kani::any();
    kani::assume(l[0] <= 2 && l[1] <= 2 && l[2] <= 2);
    let r0: &Rdata = (&d[0][..l[0]]).try_into().unwrap();
    let r1: &Rdata = (&d[1][..l[1]]).try_into().unwrap();
    let r2: &Rdata = (&d[2][..l[2]]).try_into().unwrap();
    let set = RdataSetOwned::from_iter(Class::IN, Type::A, [r0, r1, r2]).unwrap();
    let mut it = set.iter();
    // reference: keep x unless an earlier kept member has the same octets
    assert!(it.next().unwrap().octets() == r0.octets());
    let keep1 = r1.octets() != r0.octets();
    if keep1 {
        assert!(it.next().unwrap().octets() == r1.octets());
    }
    let keep2 = r2.octets() != r0.octets() && r2.octets() != r1.octets();
    if keep2 {
        assert!(it.next().unwrap().octets() == r2.octets());
    }
    assert!(it.next().is_none());
}
