//! Counterexample / cross-check harnesses for src/name/wire.rs (C14).
//! These are *bounded* (buffer <= N octets) and are used to obtain concrete
//! failing inputs when a Verus obligation fails; they are never counted as
//! proof.
use crate::name::Name;

const N: usize = 3;

/// Stub that cuts off the success path (the unsafe DST allocation makes CBMC
/// explode); panics and error returns before it stay visible.
pub(crate) unsafe fn stub_new_boxed_name(_wire_len: usize, _label_offsets: &[u8], _slices: &[&[u8]]) -> Box<Name> {
    kani::assume(false);
    loop {}
}

/// Never panics, for any buffer of <= N octets and any start offset.
#[kani::proof]
#[kani::stub(crate::name::new_boxed_name, crate::verif_kani::name_wire::stub_new_boxed_name)]
#[kani::unwind(5)]
pub(crate) fn cex_parse_compressed_total() {
    let buf: [u8; N] = kani::any();
    let n: usize = kani::any();
    kani::assume(n <= N);
    let start: usize = kani::any();
    kani::assume(start <= N + 1);
    let _ = Name::try_from_compressed(&buf[..n], start);
}

/// skip_compressed never reports more octets than the buffer holds.
#[kani::proof]
#[kani::unwind(5)]
pub(crate) fn cex_skip_len_le_buf() {
    let buf: [u8; N] = kani::any();
    let n: usize = kani::any();
    kani::assume(n <= N);
    if let Ok(l) = Name::skip_compressed(&buf[..n]) {
        assert!(l <= n);
    }
}

/// Executable reference for the first chunk of a possibly compressed name
/// (RFC 1035 4.1.4 / 3.1), written independently of the code.
fn ref_skip(b: &[u8]) -> Option<usize> {
    let mut i = 0usize;
    loop {
        if i >= b.len() { return None; }
        let o = b[i];
        if o >= 192 { return if i + 1 < b.len() && i + 1 <= 255 { Some(i + 2) } else { None }; }
        if o > 63 { return None; }
        if o == 0 { return if i + 1 <= 255 { Some(i + 1) } else { None }; }
        i += o as usize + 1;
    }
}

/// Reference with at most K labels before the terminator; Err(()) = more than K labels.
const K: usize = 6;
fn ref_skip_k(b: &[u8]) -> Result<Option<usize>, ()> {
    let mut i = 0usize;
    let mut k = 0usize;
    while k <= K {
        if i >= b.len() { return Ok(None); }
        let o = b[i];
        if o >= 192 { return Ok(if i + 1 < b.len() && i + 1 <= 255 { Some(i + 2) } else { None }); }
        if o > 63 { return Ok(None); }
        if o == 0 { return Ok(if i + 1 <= 255 { Some(i + 1) } else { None }); }
        i += o as usize + 1;
        k += 1;
    }
    Err(())
}

/// BOUNDED stand-in for skip_compressed_name: every buffer of up to BIG octets
/// whose first chunk has at most K labels (long labels reach the 255-octet
/// boundary within that bound).  Used when the Verus proof cannot be replayed
/// on restructured code; never counted as proof.
const BIG: usize = 258;
#[kani::proof]
#[kani::unwind(9)]
pub(crate) fn bnd_skip_matches_ref() {
    let buf: [u8; BIG] = kani::any();
    let n: usize = kani::any();
    kani::assume(n <= BIG);
    let want = ref_skip_k(&buf[..n]);
    kani::assume(want.is_ok());
    let got = Name::skip_compressed(&buf[..n]);
    match (got, want.unwrap()) {
        (Ok(a), Some(b)) => assert!(a == b),
        (Err(_), None) => (),
        _ => assert!(false, "acceptance differs"),
    }
}
