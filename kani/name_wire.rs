//! Counterexample / cross-check harnesses for src/name/wire.rs (C14).
//! These are *bounded* (buffer <= N octets) and are used to obtain concrete
//! failing inputs when a Verus obligation fails; they are never counted as
//! proof.
use crate::name::Name;

const N: usize = 3;

/// Stub that cuts off the success path (the unsafe DST allocation makes CBMC
/// explode); panics and error returns before it stay visible.
pub(crate) unsafe fn stub_new_boxed_name(_wire_len: usize, _label_offsets: &[u8], _slices: &[&[u8]]) -> Box<Name> {
    kani::assume(false);
    loop {}
}

/// Never panics, for any buffer of <= N octets and any start offset.
#[kani::proof]
#[kani::stub(crate::name::new_boxed_name, crate::verif_kani::name_wire::stub_new_boxed_name)]
#[kani::unwind(5)]
pub(crate) fn cex_parse_compressed_total() {
    let buf: [u8; N] = kani::any();
    let n: usize = kani::any();
    kani::assume(n <= N);
    let start: usize = kani::any();
    kani::assume(start <= N + 1);
    let _ = Name::try_from_compressed(&buf[..n], start);
}

/// skip_compressed never reports more octets than the buffer holds.
#[kani::proof]
#[kani::unwind(5)]
pub(crate) fn cex_skip_len_le_buf() {
    let buf: [u8; N] = kani::any();
    let n: usize = kani::any();
    kani::assume(n <= N);
    if let Ok(l) = Name::skip_compressed(&buf[..n]) {
        assert!(l <= n);
    }
}
