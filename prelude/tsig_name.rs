// TRUSTED PRELUDE (tsig units): stand-in for `crate::name::LowercaseName`
// (src/name/lowercase.rs: `#[repr(transparent)] struct LowercaseName(Name)` with
// Deref<Target = Name>, built only through `From<Box<Name>>`, which calls
// `Name::make_ascii_lowercase` and then casts the box with `unsafe`).  The
// conversions are stated over the wire view of prelude/name.rs:
//   * `Box<Name> -> Box<LowercaseName>` folds every upper-case ASCII letter of
//     every label (RFC 4034 6.2 canonical form) and keeps the label structure;
//   * `clone` copies; `==` is `Name`'s case-insensitive comparison.
// `lc_wf` (the name is well formed and already canonical) is what the conversion
// establishes for a well-formed input; it is a `requires` of the TSIG contracts
// wherever a `LowercaseName` comes from the caller.
pub mod name_standin_t {
    use vstd::prelude::*;
    use crate::spec_name::*;
    use crate::spec_tsig::*;
    use crate::name_standin::Name;

    #[verifier::external_body]
    pub struct LowercaseName { x: Vec<u8> }

    impl LowercaseName {
        pub uninterp spec fn name(&self) -> &Name;

        pub open spec fn lc_wf(&self) -> bool {
            self.name().wf() && is_canonical(self.name().wire())
        }
    }

    impl core::ops::Deref for LowercaseName {
        type Target = Name;
        #[verifier::external_body]
        fn deref(&self) -> (r: &Name)
            ensures r == self.name()
        { unimplemented!() }
    }

    impl From<Box<Name>> for Box<LowercaseName> {
        #[verifier::external_body]
        fn from(boxed_name: Box<Name>) -> (r: Box<LowercaseName>)
            ensures
                r.name().wire() == canonical_name(boxed_name.wire()),
                boxed_name.wf() ==> r.name().wf(),
        { unimplemented!() }
    }
    impl vstd::std_specs::convert::FromSpecImpl<Box<Name>> for Box<LowercaseName> {
        open spec fn obeys_from_spec() -> bool { false }
        open spec fn from_spec(v: Box<Name>) -> Self { arbitrary() }
    }

    impl Clone for Box<LowercaseName> {
        #[verifier::external_body]
        fn clone(&self) -> (r: Self)
            ensures r == *self
        { unimplemented!() }
    }

    /// `#[derive(PartialEq)]` on the newtype = `Name::eq`: same labels up to ASCII case.
    impl vstd::std_specs::cmp::PartialEqSpecImpl for LowercaseName {
        open spec fn obeys_eq_spec() -> bool { true }
        open spec fn eq_spec(&self, other: &Self) -> bool {
            canonical_name(self.name().wire()) == canonical_name(other.name().wire())
        }
    }
    impl PartialEq for LowercaseName {
        #[verifier::external_body]
        fn eq(&self, other: &Self) -> (r: bool) { unimplemented!() }
    }
}
