// TRUSTED PRELUDE (server units): ASSUMED callee contract of `Rrl::process_response`
// (src/server/rrl.rs), the rate-limiting hook called at the end of `Server::handle_message`.
// The function itself is under contract in unit rrl (units/frag/rrl_fns.vrs, properties C26-C28),
// over that unit's abstract Reader / Writer stand-ins (prelude/rrl_message.rs), which cannot be loaded
// next to the real Reader / Writer contracts.  What the server layer relies on is restated here over the
// real Writer view; each clause names the unit-rrl clause it mirrors:
//   requires   the precondition unit rrl states for its caller ("a NOERROR response to a QUERY that is being
//              sent has a question": the `context.question.as_ref().unwrap()` in process_response)
//              - DISCHARGED by handle_message from handle_message_with_context's postcondition;
//   ensures    [C27.not_subject_untouched] TCP / non-QUERY / suppressed responses are not touched;
//              [C26.send_unchanged] [C26.slip_tc_no_rrs] [C26.drop_not_sent] the response is left alone, or
//              (slip) its records are dropped and TC is set, or (drop) it is not sent; it is never
//              switched ON; [C26.frame] nothing else of the context changes.
// Include inside `pub mod server { pub mod rrl { .. } }`.
        use crate::spec_server::*;
        use crate::message::writer::WS;
        use crate::db::Catalog;
        use super::{Context, Transport, rrs_cleared, tc_set};

        /// Opaque here (unit rrl).
        #[verifier::external_body]
        pub struct Rrl { x: u8 }

        /// [C27.subject] Rate limiting applies iff a response is being sent, over UDP, to opcode QUERY.
        pub open spec fn subject<C: Catalog>(c: &Context<C>) -> bool {
            c.send_response && c.received_info.transport == Transport::Udp && h_opcode(c.received.octets@) == opcode_query()
        }

        impl Rrl {
            #[verifier::external_body]
            pub fn process_response<C: Catalog>(&self, context: &mut Context<C>)
                requires
                    old(context).wf(),
                    subject(old(context)) && old(context).response.s().ext_rcode() == 0
                        && old(context).source_of_synthesis is None ==> old(context).question is Some,
                ensures
                    final(context).wf(),
                    final(context).catalog == old(context).catalog,
                    final(context).received == old(context).received,
                    final(context).received_info == old(context).received_info,
                    final(context).question == old(context).question,
                    final(context).tsig_key == old(context).tsig_key,
                    final(context).source_of_synthesis == old(context).source_of_synthesis,
                    !subject(old(context)) ==> final(context).response.s() == old(context).response.s()
                        && final(context).send_response == old(context).send_response,
                    final(context).send_response ==> old(context).send_response,
                    final(context).response.s() == old(context).response.s()
                        || (final(context).send_response && final(context).response.s() == tc_set(rrs_cleared(old(context).response.s()), true)),
            { unimplemented!() }
        }
