// TRUSTED PRELUDE (core): panic stand-ins and std shims.  Every item here is an
// assumption listed in the evidence `trusted_base`.
pub mod vq {
    use vstd::prelude::*;

    /// Target of rewrite R3a: an explicit panic site must be unreachable.
    #[verifier::external_body]
    pub fn vq_unreachable() -> !
        requires false
    { panic!() }

    /// Target of rewrite R3b: a run-time assertion must hold.
    pub fn vq_require(c: bool)
        requires c
    {}

    pub open spec fn be16(hi: u8, lo: u8) -> u16 { ((hi as u16) * 256 + (lo as u16)) as u16 }
    pub open spec fn be32(a: u8, b: u8, c: u8, d: u8) -> u32 {
        ((a as u32) * 16777216 + (b as u32) * 65536 + (c as u32) * 256 + (d as u32)) as u32
    }

    /// R2 shim for u16::from_be_bytes.
    #[verifier::external_body]
    pub fn be16_from(b: [u8; 2]) -> (r: u16)
        ensures r == be16(b[0], b[1])
    { u16::from_be_bytes(b) }

    /// R2 shim for u32::from_be_bytes.
    #[verifier::external_body]
    pub fn be32_from(b: [u8; 4]) -> (r: u32)
        ensures r == be32(b[0], b[1], b[2], b[3])
    { u32::from_be_bytes(b) }

    /// R2c shim for slice -> array `try_into().unwrap()`.
    #[verifier::external_body]
    pub fn vq_slice_to_array<const N: usize>(s: &[u8]) -> (r: [u8; N])
        requires s@.len() == N
        ensures r@ == s@
    { s.try_into().unwrap() }

    /// Target of rewrite R11 (verified, not assumed): Result::map with the first projection.
    pub fn vq_map_first<A, B, E>(r: Result<(A, B), E>) -> (o: Result<A, E>)
        ensures
            r is Ok ==> o is Ok && o->Ok_0 == r->Ok_0.0,
            r is Err ==> o is Err && o->Err_0 == r->Err_0,
    {
        match r { Ok(p) => Ok(p.0), Err(e) => Err(e) }
    }

    pub assume_specification<T, E, F> [core::result::Result::<T, E>::or] (a: Result<T, E>, b: Result<T, F>) -> (r: Result<T, F>)
        where E: core::marker::Destruct, F: core::marker::Destruct, T: core::marker::Destruct,
        ensures a is Ok ==> r == Ok::<T,F>(a->Ok_0), a is Err ==> r == b;

    pub assume_specification<T, E, U> [core::result::Result::<T, E>::and] (a: Result<T, E>, b: Result<U, E>) -> (r: Result<U, E>)
        where E: core::marker::Destruct, U: core::marker::Destruct, T: core::marker::Destruct,
        ensures a is Ok ==> r == b, a is Err ==> r == Err::<U,E>(a->Err_0);
}
