// ASSUMED CALLEE CONTRACT (unit zone_file_records, C24): `Rdata::new_in_wks`
// (src/rr/rdata/std13.rs; `serialize_in_wks` uses iterator adaptor chains and is not verified
// anywhere).  It is given the contract the C18 design states for every serializer: "what it
// builds is valid RDATA of its class/type".  RFC 1035 3.4.2 validity of WKS RDATA is "at least
// the 5 fixed octets"; the bitmap has at most 65536/8 octets.  The other eight typed
// serializers are NOT assumed here: their contracts come from units/frag/rdata_ser_*.vrs,
// proved in unit `rdata_ser`.  `TxtBuilder` is extracted and verified in this unit.
pub mod zf_rdata_ctors {
    use vstd::prelude::*;
    use crate::spec_rdata::*;
    use crate::rr::rdata::Rdata;

    impl Rdata {
        #[verifier::external_body]
        pub fn new_in_wks(address: std::net::Ipv4Addr, protocol: u8, ports: &[u16]) -> (r: Box<Rdata>)
            ensures valid(CLASS_IN, T_WKS, r.octets@),
        { unimplemented!() }
    }
}
