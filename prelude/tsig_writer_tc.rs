// TRUSTED (variant unit for the D4 fix only): `Writer::set_tc` as a callee contract
// (proved in unit writer_core): sets the TC flag, nothing else the helpers look at.
pub mod tsig_writer_tc {
    use vstd::prelude::*;
    use crate::tsig_writer::Writer;
    impl<'a> Writer<'a> {
        pub uninterp spec fn tc(&self) -> bool;
        #[verifier::external_body]
        pub fn set_tc(&mut self, tc: bool)
            ensures
                final(self).tc() == tc,
                final(self).rcode() == old(self).rcode(),
                final(self).tsig() == old(self).tsig(),
                final(self).room() == old(self).room(),
                final(self).arcount() == old(self).arcount(),
        { unimplemented!() }
    }
}
