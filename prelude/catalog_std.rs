// TRUSTED PRELUDE (unit catalog, C22): std items the catalog code uses.
//  * `Option::{or, replace, filter}`, `bool::then_some`: std behaves as documented.
//  * `HashMap<K, V>` (std::collections) as a finite map w.r.t. the key type's
//    `Eq`/`Hash`: the view is `Map<K::KeyV, V>` where `K::KeyV` is the value that
//    `Eq` compares (for `LabelBuf`: the ASCII-lower-cased octets -- that
//    `LabelBuf`/`Label` `Eq`+`Hash`+`Borrow` are coherent w.r.t. that key is C16's
//    obligation; for `Class`: the class itself).  Only the methods the catalog and
//    node code call are given: new, get, get_mut, remove, is_empty, entry, and
//    `hash_map::Entry::{or_insert_with}`, `OccupiedEntry::{get_mut, remove}`.
//  * `axiom_hashmap_decreases`: the values owned by a `HashMap` are structurally
//    smaller than the map (same statement vstd makes for Vec/Seq/Map), needed to
//    define predicates by recursion over the tree of `Node`s.
pub mod std_shims {
    use vstd::prelude::*;

    #[verifier::allow(undeclared_external_trait)]
    pub assume_specification<T> [core::option::Option::<T>::or] (a: Option<T>, b: Option<T>) -> (r: Option<T>)
        where T: core::marker::Destruct,
        ensures r == (if a is Some { a } else { b });

    pub assume_specification<T> [core::option::Option::<T>::replace] (o: &mut Option<T>, v: T) -> (r: Option<T>)
        ensures r == *old(o), *final(o) == Some(v);

    #[verifier::allow(undeclared_external_trait)]
    pub assume_specification<T, P> [core::option::Option::<T>::filter] (o: Option<T>, p: P) -> (r: Option<T>)
        where P: core::ops::FnOnce(&T,) -> bool + core::marker::Destruct, T: core::marker::Destruct,
        requires o is Some ==> p.requires((&o->Some_0,)),
        ensures
            o is None ==> r is None,
            o is Some ==> (p.ensures((&o->Some_0,), true) && r == o) || (p.ensures((&o->Some_0,), false) && r is None);

    #[verifier::allow(undeclared_external_trait)]
    pub assume_specification<T> [bool::then_some] (b: bool, t: T) -> (r: Option<T>)
        where T: core::marker::Destruct,
        ensures r == (if b { Some(t) } else { None });
}

pub mod std_collections {
    use vstd::prelude::*;

    /// Key types of the stand-in `HashMap`: `kv` is the value `Eq`/`Hash` see;
    /// `Borrowed` is the `Q` of `K: Borrow<Q>` that look-ups take.
    pub trait MapKey: Sized {
        type KeyV;
        type Borrowed: ?Sized;
        spec fn kv(&self) -> Self::KeyV;
        spec fn bkv(b: &Self::Borrowed) -> Self::KeyV;
    }

    #[verifier::external_body]
    #[verifier::reject_recursive_types(K)]
    #[verifier::accept_recursive_types(V)]
    pub struct HashMap<K, V> { m: std::collections::HashMap<K, V> }

    impl<K: MapKey, V> HashMap<K, V> {
        pub uninterp spec fn view(&self) -> Map<K::KeyV, V>;

        #[verifier::external_body]
        pub fn new() -> (r: Self)
            ensures r@ == Map::<K::KeyV, V>::empty(),
        { unimplemented!() }

        #[verifier::external_body]
        pub fn is_empty(&self) -> (r: bool)
            ensures r == (self@ == Map::<K::KeyV, V>::empty()),
        { unimplemented!() }

        #[verifier::external_body]
        pub fn get(&self, k: &K::Borrowed) -> (r: Option<&V>)
            ensures match r {
                Some(v) => self@.contains_key(K::bkv(k)) && *v == self@[K::bkv(k)],
                None => !self@.contains_key(K::bkv(k)),
            },
        { unimplemented!() }

        #[verifier::external_body]
        pub fn get_mut(&mut self, k: &K::Borrowed) -> (r: Option<&mut V>)
            ensures match r {
                Some(v) => old(self)@.contains_key(K::bkv(k)) && *v == old(self)@[K::bkv(k)]
                    && final(self)@ == old(self)@.insert(K::bkv(k), *final(v)),
                None => !old(self)@.contains_key(K::bkv(k)) && final(self)@ == old(self)@,
            },
        { unimplemented!() }

        #[verifier::external_body]
        pub fn remove(&mut self, k: &K::Borrowed) -> (r: Option<V>)
            ensures
                final(self)@ == old(self)@.remove(K::bkv(k)),
                match r {
                    Some(v) => old(self)@.contains_key(K::bkv(k)) && v == old(self)@[K::bkv(k)],
                    None => !old(self)@.contains_key(K::bkv(k)),
                },
        { unimplemented!() }

        #[verifier::external_body]
        pub fn entry(&mut self, k: K) -> (r: hash_map::Entry<'_, K, V>)
            ensures
                r.key() == k.kv(),
                *r.map() == *old(self),
                *final(r.map()) == *final(self),
                (r is Occupied) == old(self)@.contains_key(k.kv()),
        { unimplemented!() }
    }

    /// Ownership is well-founded: a value stored in a map is structurally smaller
    /// than the map.
    #[verifier::external_body]
    pub broadcast proof fn axiom_hashmap_decreases<K: MapKey, V>(m: HashMap<K, V>, k: K::KeyV)
        requires m@.contains_key(k),
        ensures #[trigger] (decreases_to!(m => m@[k])),
    {}

    pub mod hash_map {
        use vstd::prelude::*;
        use super::{HashMap, MapKey};

        /// `std::collections::hash_map::{Entry, OccupiedEntry, VacantEntry}`: a
        /// mutable borrow of the map plus the key.  The fields are the ghost model;
        /// the code under contract only matches on the variant and calls methods.
        #[verifier::reject_recursive_types(K)]
        pub struct OccupiedEntry<'a, K, V> { pub map: &'a mut HashMap<K, V>, pub key: K }
        #[verifier::reject_recursive_types(K)]
        pub struct VacantEntry<'a, K, V> { pub map: &'a mut HashMap<K, V>, pub key: K }
        #[verifier::reject_recursive_types(K)]
        pub enum Entry<'a, K, V> { Occupied(OccupiedEntry<'a, K, V>), Vacant(VacantEntry<'a, K, V>) }

        impl<'a, K: MapKey, V> Entry<'a, K, V> {
            pub open spec fn key(self) -> K::KeyV {
                match self { Entry::Occupied(e) => e.key.kv(), Entry::Vacant(e) => e.key.kv() }
            }
            pub open spec fn map(self) -> &'a mut HashMap<K, V> {
                match self { Entry::Occupied(e) => e.map, Entry::Vacant(e) => e.map }
            }

            #[verifier::external_body]
            pub fn or_insert_with<F: FnOnce() -> V>(self, f: F) -> (r: &'a mut V)
                requires self is Vacant ==> f.requires(()),
                ensures
                    self is Occupied ==> *r == old(self.map())@[self.key()],
                    self is Vacant ==> f.ensures((), *r),
                    final(self.map())@ == old(self.map())@.insert(self.key(), *final(r)),
            { unimplemented!() }
        }

        impl<'a, K: MapKey, V> OccupiedEntry<'a, K, V> {
            #[verifier::external_body]
            pub fn get_mut(&mut self) -> (r: &mut V)
                ensures
                    *r == old(self).map@[old(self).key.kv()],
                    final(self).map@ == old(self).map@.insert(old(self).key.kv(), *final(r)),
                    final(self).key.kv() == old(self).key.kv(),
                    *final(final(self).map) == *final(old(self).map),
            { unimplemented!() }

            #[verifier::external_body]
            pub fn remove(self) -> (r: V)
                ensures
                    r == old(self.map)@[self.key.kv()],
                    final(self.map)@ == old(self.map)@.remove(self.key.kv()),
            { unimplemented!() }
        }
    }
}

/// `LabelBuf` as a `HashMap` key: `Eq`/`Hash` see the ASCII-lower-cased octets
/// (src/name/label.rs: `eq_ignore_ascii_case`, hash of lower-cased octets);
/// `LabelBuf: Borrow<Label>`, so look-ups take `&Label`.
pub mod std_collections_keys {
    use vstd::prelude::*;
    use crate::std_collections::MapKey;
    use crate::name_labels::{Label, LabelBuf};

    impl MapKey for LabelBuf {
        type KeyV = Seq<u8>;
        type Borrowed = Label;
        open spec fn kv(&self) -> Seq<u8> { self.key() }
        open spec fn bkv(b: &Label) -> Seq<u8> { b.key() }
    }
}
