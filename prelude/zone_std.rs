// TRUSTED PRELUDE (unit zone): std stand-ins.
//
// * `HashMap<LabelBuf, V>` (std::collections::HashMap keyed by owned labels) seen as
//   `Map<LabelK, V>`: `LabelBuf`'s Eq/Hash/Borrow<Label> impls are case-insensitive and
//   mutually consistent (src/name/label.rs; property C16), so the map's key identity is
//   the case-folded label `key()`.  Only the operations the zone code uses are given:
//   `new`, `get(&Label)`, `entry(LabelBuf).or_insert_with(f)`.
//   `Entry` carries the borrowed map as a prophecy pair: `cur()` = contents when the
//   entry was taken, `fin()` = contents when the borrow ends; `entry` ties `fin()` to
//   `final(self)`, `or_insert_with` ties it to the final value behind the returned
//   reference (the standard prophecy reading of `&mut`; nothing else can touch the map
//   while the entry/reference is live).
// * `<[T]>::binary_search_by_key`: std documents the result only for a slice sorted by
//   the key, so sortedness is a `requires`; `Ok(i)` = an element with an equal key,
//   `Err(i)` = insertion point keeping the order.  The key function must be a function
//   of its argument; it is taken to be TOTAL on the elements (its `requires` holds for
//   each and Verus checks termination of the closure body), which is what lets `Err(i)`
//   speak about the keys of elements the search never probed.
pub mod zstd {
    use vstd::prelude::*;
    use vstd::std_specs::cmp::OrdSpec;
    use core::cmp::Ordering;
    use crate::spec_zone::*;
    use crate::zname::*;

    #[verifier::external_body]
    #[verifier::accept_recursive_types(V)]
    #[verifier::reject_recursive_types(K)]
    pub struct HashMap<K, V> { m: std::collections::HashMap<K, V> }

    #[verifier::external_body]
    #[verifier::accept_recursive_types(V)]
    #[verifier::reject_recursive_types(K)]
    pub struct Entry<'a, K, V> { e: std::collections::hash_map::Entry<'a, K, V> }

    impl<V> HashMap<LabelBuf, V> {
        pub uninterp spec fn view(&self) -> Map<LabelK, V>;

        #[verifier::external_body]
        pub fn new() -> (r: Self)
            ensures r@ == Map::<LabelK, V>::empty(),
        { unimplemented!() }

        #[verifier::external_body]
        pub fn get(&self, k: &Label) -> (r: Option<&V>)
            ensures
                match r {
                    Some(v) => self@.contains_key(k.key()) && *v == self@[k.key()],
                    None => !self@.contains_key(k.key()),
                },
        { unimplemented!() }

        #[verifier::external_body]
        pub fn entry(&mut self, k: LabelBuf) -> (r: Entry<'_, LabelBuf, V>)
            ensures
                r.key() == k.key(),
                r.cur() == old(self)@,
                final(self)@ == r.fin(),
        { unimplemented!() }
    }

    /// `hash_map::Values`: `rest()` = the values not yet produced, in production order.
    #[verifier::external_body]
    #[verifier::accept_recursive_types(V)]
    #[verifier::reject_recursive_types(K)]
    pub struct Values<'a, K, V> { v: std::collections::hash_map::Values<'a, K, V> }

    pub mod hash_map { pub use super::Values; }

    impl<'a, V> Values<'a, LabelBuf, V> {
        pub uninterp spec fn rest(&self) -> Seq<V>;

        /// `Iterator::next` of `hash_map::Values`.
        #[verifier::external_body]
        pub fn next(&mut self) -> (r: Option<&'a V>)
            ensures
                old(self).rest().len() == 0 ==> r is None && final(self).rest() == old(self).rest(),
                old(self).rest().len() > 0 ==> r is Some && *r->Some_0 == old(self).rest()[0]
                    && final(self).rest() == old(self).rest().skip(1),
        { unimplemented!() }
    }

    impl<V> HashMap<LabelBuf, V> {
        /// The (fixed but unspecified) order in which an unmodified map enumerates its keys:
        /// every key exactly once.
        pub uninterp spec fn order_keys(&self) -> Seq<LabelK>;

        pub open spec fn order(&self) -> Seq<V> {
            Seq::new(self.order_keys().len(), |i: int| self@[self.order_keys()[i]])
        }

        #[verifier::external_body]
        pub proof fn axiom_order(&self)
            ensures
                self.order_keys().no_duplicates(),
                forall|k: LabelK| self.order_keys().contains(k) <==> #[trigger] self@.contains_key(k),
        { }

        /// `HashMap::values`
        #[verifier::external_body]
        pub fn values(&self) -> (r: Values<'_, LabelBuf, V>)
            ensures r.rest() == self.order(),
        { unimplemented!() }
    }

    pub assume_specification<T> [core::mem::replace::<T>] (dest: &mut T, src: T) -> (r: T)
        ensures r == *old(dest), *final(dest) == src;

    impl<'a, V> Entry<'a, LabelBuf, V> {
        pub uninterp spec fn key(&self) -> LabelK;
        pub uninterp spec fn cur(&self) -> Map<LabelK, V>;
        pub uninterp spec fn fin(&self) -> Map<LabelK, V>;

        #[verifier::external_body]
        pub fn or_insert_with<F: FnOnce() -> V>(self, default: F) -> (r: &'a mut V)
            requires
                !self.cur().contains_key(self.key()) ==> default.requires(()),
            ensures
                self.cur().contains_key(self.key()) ==> *r == self.cur()[self.key()],
                !self.cur().contains_key(self.key()) ==> default.ensures((), *r),
                self.fin() == self.cur().insert(self.key(), *final(r)),
        { unimplemented!() }
    }

    pub assume_specification<'a, T, B: Ord, F: FnMut(&'a T) -> B> [<[T]>::binary_search_by_key] (s: &'a [T], b: &B, f: F) -> (r: Result<usize, usize>)
        requires
            B::obeys_cmp_spec(),
            forall|i: int| 0 <= i < s@.len() ==> f.requires((&#[trigger] s@[i],)),
            // `f` is a function of its argument
            forall|x: &T, k1: B, k2: B| #[trigger] f.ensures((x,), k1) && #[trigger] f.ensures((x,), k2) ==> k1 == k2,
            // sorted by key
            forall|i: int, j: int, ki: B, kj: B| 0 <= i < j < s@.len()
                && #[trigger] f.ensures((&s@[i],), ki) && #[trigger] f.ensures((&s@[j],), kj)
                ==> ki.cmp_spec(&kj) != Ordering::Greater,
        ensures
            match r {
                Ok(i) => i < s@.len()
                    && exists|k: B| #[trigger] f.ensures((&s@[i as int],), k) && k.cmp_spec(b) == Ordering::Equal,
                Err(i) => i <= s@.len()
                    && forall|j: int| #![trigger s@[j]] 0 <= j < s@.len() ==> exists|k: B| #[trigger] f.ensures((&s@[j],), k)
                        && (j < i ==> k.cmp_spec(b) == Ordering::Less) && (j >= i ==> k.cmp_spec(b) == Ordering::Greater),
            };

    /// Stand-in for `Box<dyn RrsetIterator<'a> + 'a>` (target of rewrite ZN6): opaque; `yields()` is the
    /// sequence of RRsets the iterator will produce (each as `IteratedRrset::from(&rrset)`).
    #[verifier::external_body]
    pub struct RrsetIterBox<'a> { b: Box<dyn crate::db::zone::RrsetIterator<'a> + 'a> }

    impl<'a> RrsetIterBox<'a> {
        pub uninterp spec fn yields(&self) -> Seq<crate::db::rrset::Rrset>;
    }

    /// Target of rewrite ZN7: `Box::new(list.iter().map(IteratedRrset::from))`.
    #[verifier::external_body]
    pub fn zn_boxed_rrsets<'a>(list: &'a crate::db::rrset::RrsetList) -> (r: RrsetIterBox<'a>)
        ensures r.yields() == list.rrsets@,
    { unimplemented!() }
}
