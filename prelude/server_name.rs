// TRUSTED PRELUDE (server units): the accessors of `crate::name::Name` /
// `crate::name::LowercaseName` that src/server/mod.rs uses and that
// prelude/writer_name.rs (included by the server units for the Writer) does not
// already provide.  Same stand-in style: thin external_body functions over the
// ghost views `wire()` / `offsets()` of prelude/name.rs.
//   * `Name::is_root` (src/name/mod.rs): `self.n_labels == 1` - for a well-formed
//     name that is "the wire form is the single null label" (same statement as
//     prelude/name_more.rs, which cannot be included next to prelude/writer_name.rs
//     because both define `wire_repr`).
//   * `impl ToOwned for LowercaseName` (src/name/lowercase.rs): boxed copy.
//   * `impl AsRef<Name> for LowercaseName`: the wrapped name.
pub mod name_standin_s {
    use vstd::prelude::*;
    use crate::spec_name::*;
    use crate::name_standin::Name;
    use crate::name_standin_w::LowercaseName;

    impl Name {
        #[verifier::external_body]
        pub fn is_root(&self) -> (r: bool)
            ensures self.wf() ==> r == (self.wire() == seq![0u8])
        { unimplemented!() }
    }

    impl ToOwned for LowercaseName {
        type Owned = Box<LowercaseName>;
        #[verifier::external_body]
        fn to_owned(&self) -> (r: Box<LowercaseName>)
            ensures r.name() == self.name()
        { unimplemented!() }
    }

    impl AsRef<Name> for LowercaseName {
        #[verifier::external_body]
        fn as_ref(&self) -> (r: &Name)
            ensures r == self.name()
        { unimplemented!() }
    }
}
