// TRUSTED PRELUDE (unit rdata_ser): std shims needed by the RDATA serializers
// (`serialize_*`, `Rdata::new_*`) of src/rr/rdata/{std13,srv,ipv6}.rs.
pub mod vq_rd {
    use vstd::prelude::*;

    /// Big-endian octets of a 16-bit / 32-bit integer (most significant first).
    pub open spec fn u16_be(x: u16) -> Seq<u8> { seq![(x / 256) as u8, (x % 256) as u8] }
    pub open spec fn u32_be(x: u32) -> Seq<u8> {
        seq![(x / 16777216) as u8, ((x / 65536) % 256) as u8, ((x / 256) % 256) as u8, (x % 256) as u8]
    }

    /// Target of rewrite R2 for `X.to_be_bytes()`: `be_to(X)`.  The spec is the
    /// big-endian definition.
    pub trait BeTo: Sized {
        type Out;
        spec fn be_seq(self) -> Seq<u8>;
        spec fn out_seq(o: Self::Out) -> Seq<u8>;
        fn be_to_impl(self) -> (r: Self::Out)
            ensures Self::out_seq(r) == self.be_seq();
    }
    impl BeTo for u16 {
        type Out = [u8; 2];
        open spec fn be_seq(self) -> Seq<u8> { u16_be(self) }
        open spec fn out_seq(o: [u8; 2]) -> Seq<u8> { o@ }
        #[verifier::external_body]
        fn be_to_impl(self) -> (r: [u8; 2]) { self.to_be_bytes() }
    }
    impl BeTo for u32 {
        type Out = [u8; 4];
        open spec fn be_seq(self) -> Seq<u8> { u32_be(self) }
        open spec fn out_seq(o: [u8; 4]) -> Seq<u8> { o@ }
        #[verifier::external_body]
        fn be_to_impl(self) -> (r: [u8; 4]) { self.to_be_bytes() }
    }
    pub fn be_to<T: BeTo>(x: T) -> (r: T::Out)
        ensures T::out_seq(r) == x.be_seq()
    { x.be_to_impl() }

    /// std::net::Ipv4Addr / Ipv6Addr: opaque; `octets()` yields the 4 / 16 address octets.
    #[verifier::external_type_specification]
    #[verifier::external_body]
    pub struct ExIpv4Addr(std::net::Ipv4Addr);

    #[verifier::external_type_specification]
    #[verifier::external_body]
    pub struct ExIpv6Addr(std::net::Ipv6Addr);

    pub uninterp spec fn ipv4_octets(a: std::net::Ipv4Addr) -> Seq<u8>;
    pub uninterp spec fn ipv6_octets(a: std::net::Ipv6Addr) -> Seq<u8>;

    pub assume_specification [std::net::Ipv4Addr::octets] (a: &std::net::Ipv4Addr) -> (r: [u8; 4])
        ensures r@ == ipv4_octets(*a);

    pub assume_specification [std::net::Ipv6Addr::octets] (a: &std::net::Ipv6Addr) -> (r: [u8; 16])
        ensures r@ == ipv6_octets(*a);
}
