// TRUSTED PRELUDE (unit name_core, C16): the `unsafe` parts of src/name/mod.rs, included
// inside `mod name` of the unit.  Their bodies (raw allocation, ptr::copy_nonoverlapping,
// slice_from_raw_parts + fat-pointer cast, Box::from_raw, a `static` reinterpreted as a
// Name) are NOT verified; each gets the contract "returns a Name with exactly this memory
// layout".  That the layout satisfies the representation invariant `repr_ok()` is then a
// CONSEQUENCE (the last three ensures of new_boxed_name / root repeat it for the callers'
// convenience; lemma_layout_repr_ok in the unit proves them from the first two).
//   * `new_boxed_name` (with its private helpers `Name::size_required_for`,
//     `Name::initialize_into`, `Name::make_fat_pointer_mut`, which have no other caller):
//     REQUIRES the documented safety contract of the real unsafe fn - the slices concatenate
//     to a valid name of `wire_len` octets and `label_offsets` are its label offsets - so
//     every extracted caller (`superdomain`, `to_owned`; in other units the parsers and the
//     builder) must prove it.  ENSURES n_labels = label_offsets.len(), data = label_offsets ++ slices.
//   * `Name::root` (with `Name::make_fat_pointer`): the static `[1, 0, 0]` seen as a Name:
//     n_labels = 1, data = [0, 0].
impl Name {
    #[verifier::external_body]
    pub fn root() -> (r: &'static Name)
        ensures
            r.n_labels == 1,
            r.data@ == seq![0u8, 0u8],
            r.repr_ok(), r.wire() == seq![0u8], r.offsets() == seq![0u8],
    { unimplemented!() }
}

#[verifier::external_body]
pub unsafe fn new_boxed_name(wire_len: usize, label_offsets: &[u8], slices: &[&[u8]]) -> (r: Box<Name>)
    requires
        concat(slices@).len() == wire_len,
        valid_name(concat(slices@)),
        offs(label_offsets@) == name_offsets(concat(slices@)),
    ensures
        r.n_labels as int == label_offsets@.len(),
        r.data@ == label_offsets@ + concat(slices@),
        r.wire() == concat(slices@),
        r.offsets() == label_offsets@,
        r.repr_ok(),
{ unimplemented!() }
