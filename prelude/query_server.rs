// TRUSTED PRELUDE (query units, C05): opaque stand-ins for the types of the fields of
// `server::Context` (src/server/mod.rs) which the answer-construction half of query.rs never
// touches: the request `Reader`, `ReceivedInfo` and `rrl::Action`.  Nothing is assumed about
// them; the contracts of `answer` / `answer_any` state that these fields are left unchanged.
pub mod qserver {
    use vstd::prelude::*;

    #[verifier::external_body]
    pub struct Reader<'b> { x: &'b [u8] }

    #[verifier::external_body]
    pub struct ReceivedInfo { x: u8 }

    pub mod rrl {
        use vstd::prelude::*;
        #[verifier::external_body]
        pub struct Action { x: u8 }
    }
}
