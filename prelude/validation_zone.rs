// TRUSTED PRELUDE (unit zone_validation, C21): the interface through which
// src/db/zone/validation.rs sees the rest of the crate.
//
// * `trait Zone` -- the crate's `db::zone::Zone` trait with the documented meaning of each
//   method stated over the abstract zone `ZoneV` of specs/zone.rs.  The contracts of
//   `lookup_addrs` / `soa` / `ns` / `name` / `class` / `glue_policy` are what properties
//   C06/C20 establish for the real `HashMapTreeZone`; here they are ASSUMED callee
//   contracts (trait dispatch is not modelled).  `iter_by_node` returns the crate's boxed
//   `dyn Iterator`; it is given the stand-in type `NodeIter` with the contract "yields every
//   node of the zone with exactly its RRsets" (C20's iterator part -- outside this unit).
// * `HashSet<ValidationIssue>` seen as a mathematical set of `IssueV` (names compared as
//   case-folded labels = `Name`'s Eq/Hash, property C16): `insert` adds exactly one element.
// * `Cow` is std's; `Deref`/`AsRef` get the contract "the value borrowed or owned".
// * `Rdata` / `RdataSet` / `rdata_set::Iter`: opaque, seen as octet strings / the sequence of
//   octet strings (src/rr/rdata_set.rs; property C19 for the real iterator).
// * `Name`: extends prelude/zone_name.rs (label view) by the three operations used here.
pub mod vzone {
    use vstd::prelude::*;
    use vstd::std_specs::iter::IteratorSpec;
    use std::borrow::Cow;
    use crate::spec_zone::*;
    use crate::spec_validation::*;
    use crate::zname::*;
    use crate::class::Class;
    use crate::rr::Type;
    use crate::name;
    use crate::db::zone::{GluePolicy, IteratedRrset, LookupAddrsResult, LookupOptions, SingleRrset};
    use crate::db::zone::validation::ValidationIssue;

    // ------------------------------------------------------------------ Cow

    /// The value a `Cow` dereferences to (borrowed or owned).
    pub uninterp spec fn cow_get<'a, 'b, B: ?Sized + ToOwned>(c: &'b Cow<'a, B>) -> &'b B;

    pub assume_specification<'a, 'b, B: ?Sized + ToOwned> [<Cow<'a, B> as AsRef<B>>::as_ref] (c: &'b Cow<'a, B>) -> (r: &'b B)
        ensures r == cow_get(c);

    pub assume_specification<'a, 'b, B: ?Sized + ToOwned> [<Cow<'a, B> as core::ops::Deref>::deref] (c: &'b Cow<'a, B>) -> (r: &'b B)
        ensures r == cow_get(c);

    /// Label view of a `Cow<Name>`.
    pub open spec fn cow_name(c: Cow<'_, Name>) -> NameK { cow_get(&c).labels() }

    /// RDATA-sequence view of a `Cow<RdataSet>`.
    pub open spec fn cow_rdatas(c: Cow<'_, RdataSet>) -> Seq<Seq<u8>> { cow_get(&c)@ }

    // ------------------------------------------------------------------ Name

    impl Name {
        /// `Name::is_wildcard`: "whether its first label is `*`".
        #[verifier::external_body]
        pub fn is_wildcard(&self) -> (r: bool)
            ensures r == (self.labels()[0] == asterisk()),
        { unimplemented!() }

        /// `Name::try_from_uncompressed_all`: parses an uncompressed name that must fill the
        /// whole buffer (property C14); the result's labels are `wire_name`.
        #[verifier::external_body]
        pub fn try_from_uncompressed_all(octets: &[u8]) -> (r: Result<Box<Name>, name::Error>)
            ensures
                wire_name(octets@) is Some ==> r is Ok && r->Ok_0.labels() == wire_name(octets@)->Some_0,
                wire_name(octets@) is None ==> r is Err,
        { unimplemented!() }
    }

    /// `PartialEq for Name`: case-insensitive equality of the labels (src/name/mod.rs; C16).
    impl vstd::std_specs::cmp::PartialEqSpecImpl for Name {
        open spec fn obeys_eq_spec() -> bool { true }
        open spec fn eq_spec(&self, other: &Name) -> bool { self.labels() == other.labels() }
    }
    impl PartialEq for Name {
        #[verifier::external_body]
        fn eq(&self, other: &Name) -> (r: bool)
        { unimplemented!() }
    }

    // ------------------------------------------------------------------ Rdata / RdataSet

    #[verifier::external_body]
    pub struct Rdata { x: [u8] }
    impl View for Rdata {
        type V = Seq<u8>;
        uninterp spec fn view(&self) -> Seq<u8>;
    }
    impl Rdata {
        /// `Rdata::octets`.
        #[verifier::external_body]
        pub fn octets(&self) -> (r: &[u8])
            ensures r@ == self@,
        { unimplemented!() }
    }

    #[verifier::external_body]
    pub struct RdataSet { x: [u8] }
    impl View for RdataSet {
        type V = Seq<Seq<u8>>;
        uninterp spec fn view(&self) -> Seq<Seq<u8>>;
    }
    #[verifier::external]
    impl ToOwned for RdataSet {
        type Owned = Box<RdataSet>;
        fn to_owned(&self) -> Box<RdataSet> { unimplemented!() }
    }

    /// Stand-in for `rr::rdata_set::Iter`.
    #[verifier::external_body]
    pub struct RdataIter<'a> { s: &'a RdataSet }

    impl<'a> Iterator for RdataIter<'a> {
        type Item = &'a Rdata;
        #[verifier::external_body]
        fn next(&mut self) -> (r: Option<&'a Rdata>)
        { unimplemented!() }
    }

    impl<'a> vstd::std_specs::iter::IteratorSpecImpl for RdataIter<'a> {
        open spec fn obeys_prophetic_iter_laws(&self) -> bool { true }
        #[verifier::prophetic]
        uninterp spec fn remaining(&self) -> Seq<&'a Rdata>;
        #[verifier::prophetic]
        uninterp spec fn will_return_none(&self) -> bool;
        uninterp spec fn decrease(&self) -> Option<nat>;
        uninterp spec fn peek(&self, i: int) -> Option<&'a Rdata>;
    }

    impl<'a> RdataIter<'a> {
        /// `Iterator::count` on a fresh-or-partly-consumed RDATA iterator: the number of items left.
        #[verifier::external_body]
        pub fn count(self) -> (r: usize)
            ensures r == self.remaining().len(),
        { unimplemented!() }
    }

    impl RdataSet {
        /// `RdataSet::iter`: a finite iterator over the RDATAs in order.  "[An RdataSet] is
        /// guaranteed not to be empty" (src/rr/rdata_set.rs).
        #[verifier::external_body]
        pub fn iter<'a>(&'a self) -> (c: RdataIter<'a>)
            ensures
                c.decrease() is Some,
                c.will_return_none(),
                c.remaining().len() == self@.len(),
                forall|i: int| 0 <= i < c.remaining().len() ==> (#[trigger] c.remaining()[i])@ == self@[i],
                self@.len() >= 1,
        { unimplemented!() }
    }

    // ------------------------------------------------------------------ HashSet<ValidationIssue>

    #[verifier::external_body]
    #[verifier::reject_recursive_types(T)]
    pub struct HashSet<T> { s: std::collections::HashSet<u8>, p: core::marker::PhantomData<T> }

    impl<'a> HashSet<ValidationIssue<'a>> {
        pub uninterp spec fn view(&self) -> ISet<IssueV>;

        /// `HashSet::new`: empty.
        #[verifier::external_body]
        pub fn new() -> (r: Self)
            ensures r@ == ISet::<IssueV>::empty(),
        { unimplemented!() }

        /// `HashSet::insert`: the set afterwards is the set before plus the value.
        #[verifier::external_body]
        pub fn insert(&mut self, v: ValidationIssue<'a>) -> (r: bool)
            ensures
                final(self)@ == old(self)@.insert(v@),
                r == !old(self)@.contains(v@),
        { unimplemented!() }

        /// `IntoIterator for HashSet` (then `Iterator::collect::<Vec<_>>`).
        #[verifier::external_body]
        pub fn into_iter(self) -> (r: IssueIntoIter<'a>)
            ensures r.set() == self@,
        { unimplemented!() }
    }

    /// Stand-in for `std::collections::hash_set::IntoIter<ValidationIssue>`.
    #[verifier::external_body]
    pub struct IssueIntoIter<'a> { v: Vec<ValidationIssue<'a>> }

    /// The set of issues listed by a vector.
    pub open spec fn issues_of(v: Seq<ValidationIssue<'_>>) -> ISet<IssueV> {
        ISet::new(|i: IssueV| exists|k: int| 0 <= k < v.len() && (#[trigger] v[k])@ == i)
    }

    impl<'a> IssueIntoIter<'a> {
        pub uninterp spec fn set(&self) -> ISet<IssueV>;

        /// `Iterator::collect::<Vec<_>>` on the set's owning iterator: every element once.
        #[verifier::external_body]
        pub fn collect(self) -> (r: Vec<ValidationIssue<'a>>)
            ensures
                issues_of(r@) == self.set(),
                forall|j: int, k: int| 0 <= j < k < r@.len() ==> (#[trigger] r@[j])@ != (#[trigger] r@[k])@,
        { unimplemented!() }
    }

    // ------------------------------------------------------------------ node iteration

    /// `rrsets` lists exactly the RRsets of node `d`: every listed type is in `d` with the same
    /// RDATAs, no type is listed twice, and every type of `d` is listed.
    pub open spec fn lists_node(rrsets: Seq<IteratedRrset<'_>>, d: NodeV) -> bool {
        &&& forall|j: int| 0 <= j < rrsets.len() ==> d.contains_key((#[trigger] rrsets[j]).rr_type.0)
                && d[rrsets[j].rr_type.0].rdatas == cow_rdatas(rrsets[j].rdatas)
        &&& forall|j: int, k: int| 0 <= j < k < rrsets.len() ==> (#[trigger] rrsets[j]).rr_type.0 != (#[trigger] rrsets[k]).rr_type.0
        &&& forall|t: u16| #[trigger] d.contains_key(t) ==> exists|j: int| 0 <= j < rrsets.len() && (#[trigger] rrsets[j]).rr_type.0 == t
    }

    /// Stand-in for the inner `Box<dyn Iterator<Item = IteratedRrset>>` of `Zone::iter_by_node`.
    #[verifier::external_body]
    pub struct RrsetsIter<'a> { v: Vec<IteratedRrset<'a>> }

    impl<'a> RrsetsIter<'a> {
        pub uninterp spec fn items(&self) -> Seq<IteratedRrset<'a>>;

        /// `Iterator::collect::<Vec<_>>`.
        #[verifier::external_body]
        pub fn collect(self) -> (r: Vec<IteratedRrset<'a>>)
            ensures r@ == self.items(),
        { unimplemented!() }
    }

    /// Stand-in for `IteratorByNode` (`Box<dyn Iterator<Item = (&Name, Box<dyn Iterator ..>)>>`).
    #[verifier::external_body]
    pub struct NodeIter<'a> { v: Vec<&'a Name> }

    impl<'a> Iterator for NodeIter<'a> {
        type Item = (&'a Name, RrsetsIter<'a>);
        #[verifier::external_body]
        fn next(&mut self) -> (r: Option<(&'a Name, RrsetsIter<'a>)>)
        { unimplemented!() }
    }

    impl<'a> vstd::std_specs::iter::IteratorSpecImpl for NodeIter<'a> {
        open spec fn obeys_prophetic_iter_laws(&self) -> bool { true }
        #[verifier::prophetic]
        uninterp spec fn remaining(&self) -> Seq<(&'a Name, RrsetsIter<'a>)>;
        #[verifier::prophetic]
        uninterp spec fn will_return_none(&self) -> bool;
        uninterp spec fn decrease(&self) -> Option<nat>;
        uninterp spec fn peek(&self, i: int) -> Option<(&'a Name, RrsetsIter<'a>)>;
    }

    /// `nodes` enumerates the zone: each item is a node of `z` with exactly its RRsets, and
    /// every node of `z` is an item.
    pub open spec fn lists_zone(nodes: Seq<(&Name, RrsetsIter<'_>)>, z: ZoneV) -> bool {
        &&& forall|k: int| 0 <= k < nodes.len() ==> z.nodes.contains_key((#[trigger] nodes[k]).0.labels())
                && lists_node(nodes[k].1.items(), z.nodes[nodes[k].0.labels()])
        &&& forall|n: NameK| #[trigger] z.nodes.contains_key(n) ==> exists|k: int| 0 <= k < nodes.len() && (#[trigger] nodes[k]).0.labels() == n
    }

    // ------------------------------------------------------------------ Zone

    pub open spec fn policy_v(p: GluePolicy) -> PolicyV {
        match p { GluePolicy::Narrow => PolicyV::Narrow, GluePolicy::Wide => PolicyV::Wide }
    }

    /// What `Zone::lookup_addrs` returns for a name that resolves as `res` in a zone of class `c`
    /// ("implementations must return A records regardless of the zone's class, and must also
    /// include AAAA records when the zone is in the Internet (IN) class"; `Cname`: "No records
    /// were found, but a CNAME record was present").  Nothing is assumed about `aaaa_rrset`
    /// outside class IN.
    pub open spec fn addrs_matches(r: LookupAddrsResult<'_>, z: ZoneV, c: u16, res: Resolution) -> bool {
        match res {
            Resolution::Node { node, wildcard } => {
                let has_a = z.nodes[node].contains_key(TYPE_A);
                let has_aaaa = z.nodes[node].contains_key(TYPE_AAAA);
                (r is Found
                    && (r->Found_0.data.a_rrset is Some) == has_a
                    && (c == CLASS_IN ==> (r->Found_0.data.aaaa_rrset is Some) == has_aaaa))
                || (r is Cname && !has_a && (c == CLASS_IN ==> !has_aaaa))
            },
            Resolution::Referral { cut } => r is Referral && cow_name(r->Referral_0.child_zone) == cut,
            Resolution::NxDomain => r is NxDomain,
            Resolution::WrongZone => r is WrongZone,
        }
    }

    pub trait Zone {
        /// The zone's contents, class and glue policy.
        spec fn zv(&self) -> ZoneV;
        spec fn zclass(&self) -> u16;
        spec fn zpolicy(&self) -> PolicyV;

        /// "Returns the name of the zone (i.e., the domain name of the zone's apex node)."
        fn name(&self) -> (r: &Name)
            ensures r.labels() == self.zv().apex;

        fn class(&self) -> (r: Class)
            ensures r.0 == self.zclass();

        fn glue_policy(&self) -> (r: GluePolicy)
            ensures policy_v(r) == self.zpolicy();

        /// "Looks up all address records at the provided domain name." (C06)
        fn lookup_addrs(&self, name: &Name, options: LookupOptions) -> (r: LookupAddrsResult<'_>)
            requires
                options.unchecked ==> at_or_below(name.labels(), self.zv().apex),
            ensures
                addrs_matches(r, self.zv(), self.zclass(), resolve(self.zv(), name.labels(), options.search_below_cuts));

        /// "Returns the SOA RRset at the zone's apex, if it exists."
        fn soa(&self) -> (r: Option<SingleRrset<'_>>)
            ensures
                r is Some == self.zv().nodes[self.zv().apex].contains_key(TYPE_SOA),
                r is Some ==> cow_rdatas(r->Some_0.rdatas) == self.zv().nodes[self.zv().apex][TYPE_SOA].rdatas;

        /// "Returns the NS RRset at the zone's apex, if it exists."
        fn ns(&self) -> (r: Option<SingleRrset<'_>>)
            ensures
                r is Some == self.zv().nodes[self.zv().apex].contains_key(TYPE_NS),
                r is Some ==> cow_rdatas(r->Some_0.rdatas) == self.zv().nodes[self.zv().apex][TYPE_NS].rdatas;

        /// "Returns an iterator over the nodes of a zone.  For each node, the node's domain name
        /// and iterator over its RRsets is produced."  (C20, assumed.)
        fn iter_by_node(&self) -> (c: NodeIter<'_>)
            ensures
                c.decrease() is Some,
                c.will_return_none(),
                lists_zone(c.remaining(), self.zv());
    }
}
