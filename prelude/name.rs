// TRUSTED PRELUDE: stand-in for `crate::name::Name` (a #[repr(C)] DST whose
// allocation is done by `unsafe fn new_boxed_name`).  The stand-in exposes the
// uncompressed wire form and label offsets as ghost views.  `new_boxed_name`
// REQUIRES exactly the documented safety contract of the real unsafe fn (valid
// name, correct offsets), so every extracted caller must prove it; the unsafe
// body itself (alloc + copy_nonoverlapping + fat-pointer cast) is NOT verified.
pub mod name_standin {
    use vstd::prelude::*;
    use crate::spec_name::*;

    #[verifier::external_body]
    pub struct Name { x: Vec<u8> }

    impl Name {
        pub uninterp spec fn wire(&self) -> Seq<u8>;
        pub uninterp spec fn offsets(&self) -> Seq<u8>;

        /// Type invariant of every `Name` the module creates.
        pub open spec fn wf(&self) -> bool {
            valid_name(self.wire())
            && offs(self.offsets()) == name_offsets(self.wire())
        }
    }

    /// Concatenation of the slices (callers pass one or two).
    pub open spec fn concat(slices: Seq<&[u8]>) -> Seq<u8>
        decreases slices.len()
    {
        if slices.len() == 0 { Seq::empty() }
        else if slices.len() == 1 { slices[0]@ }
        else if slices.len() == 2 { slices[0]@ + slices[1]@ }
        else { concat(slices.drop_last()) + slices.last()@ }
    }

    #[verifier::external_body]
    pub unsafe fn new_boxed_name(wire_len: usize, label_offsets: &[u8], slices: &[&[u8]]) -> (r: Box<Name>)
        requires
            concat(slices@).len() == wire_len,
            valid_name(concat(slices@)),
            offs(label_offsets@) == name_offsets(concat(slices@)),
        ensures
            r.wire() == concat(slices@),
            r.offsets() == label_offsets@,
            r.wf(),
    { unimplemented!() }
}
