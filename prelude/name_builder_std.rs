// TRUSTED PRELUDE (unit name_builder, C16): the pieces of arrayvec 0.7 that
// src/name/builder.rs uses beyond prelude/arrayvec.rs (which is not edited).
pub mod name_builder_std {
    use vstd::prelude::*;
    use crate::arrayvec::ArrayVec;

    /// Target of rewrite NB1: `ArrayVec[i] = v` (IndexMut through DerefMut to the
    /// slice; panics when `i >= len`, hence the `requires`).
    #[verifier::external_body]
    pub fn vq_av_set<T: Copy, const CAP: usize>(a: &mut ArrayVec<T, CAP>, i: usize, v: T)
        requires i < old(a)@.len(),
        ensures final(a)@ == old(a)@.update(i as int, v),
    { unimplemented!() }

    /// Target of rewrite NB2: `<&[T]>.try_into().unwrap()` into an `ArrayVec`
    /// (`TryFrom<&[T]> for ArrayVec` fails, and the unwrap panics, exactly when the
    /// slice is longer than CAP).
    #[verifier::external_body]
    pub fn vq_av_from_slice<T: Copy, const CAP: usize>(s: &[T]) -> (r: ArrayVec<T, CAP>)
        requires s@.len() <= CAP,
        ensures r@ == s@,
    { unimplemented!() }
}
