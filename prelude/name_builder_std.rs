// TRUSTED PRELUDE (unit name_builder, C16): the pieces of arrayvec 0.7 that
// src/name/builder.rs uses beyond prelude/arrayvec.rs (which is not edited).
pub mod name_builder_std {
    use vstd::prelude::*;
    use crate::arrayvec::{ArrayVec, CapacityError};

    /// `ArrayVec: DerefMut<Target = [T]>`: the mutable slice covers exactly the
    /// `len` initialised elements; writing through it changes elements, never the
    /// length.  (Used by `self.wire_repr[i] = v`; Verus adds the bounds obligation
    /// `i < len` itself, which is the real panic condition.)
    impl<T: Copy, const CAP: usize> core::ops::DerefMut for ArrayVec<T, CAP> {
        #[verifier::external_body]
        fn deref_mut(&mut self) -> (r: &mut [T])
            ensures r@ == old(self)@, final(self)@ == final(r)@,
        { unimplemented!() }
    }

    /// `impl TryFrom<&[T]> for ArrayVec<T, CAP>` (arrayvec 0.7): `Err(CapacityError)`
    /// exactly when the slice is longer than CAP, else a copy of the slice.
    impl<'a, T: Copy, const CAP: usize> TryFrom<&'a [T]> for ArrayVec<T, CAP> {
        type Error = CapacityError;
        #[verifier::external_body]
        fn try_from(s: &'a [T]) -> (r: Result<Self, CapacityError>)
            ensures
                s@.len() <= CAP ==> r is Ok && r->Ok_0@ == s@,
                s@.len() > CAP ==> r is Err,
        { unimplemented!() }
    }
}
// `Result::unwrap` needs `E: Debug` (formatting only; outside verus!).
impl core::fmt::Debug for crate::arrayvec::CapacityError {
    fn fmt(&self, _f: &mut core::fmt::Formatter) -> core::fmt::Result { Ok(()) }
}
