// TRUSTED PRELUDE (unit rrl): stand-ins for the std / rand items used by
// src/server/rrl.rs and ReceivedInfo::new.  Every item is an assumption listed
// in the evidence `trusted_base`.  The stand-ins state the documented
// behaviour of the std items and nothing else.
pub mod rrl_std {
    use vstd::prelude::*;

    // ------------------------------------------------------------------
    // std::time
    // ------------------------------------------------------------------
    pub mod time {
        use vstd::prelude::*;
        use vstd::std_specs::cmp::*;
        use core::cmp::Ordering;

        /// std::time::Duration: a non-negative span, viewed as whole nanoseconds.
        #[verifier::external_body]
        pub struct Duration { d: core::time::Duration }

        /// std::time::Instant: a reading of the monotone clock, viewed as
        /// nanoseconds since the clock's (unspecified) origin.
        #[verifier::external_body]
        pub struct Instant { i: std::time::Instant }

        impl Clone for Duration { #[verifier::external_body] fn clone(&self) -> (r: Self) ensures r == *self { unimplemented!() } }
        impl Copy for Duration {}
        impl Clone for Instant { #[verifier::external_body] fn clone(&self) -> (r: Self) ensures r == *self { unimplemented!() } }
        impl Copy for Instant {}

        impl Duration {
            pub uninterp spec fn ns(&self) -> nat;
            pub open spec fn as_secs_spec(&self) -> nat { self.ns() / 1_000_000_000 }

            #[verifier::external_body]
            pub fn from_secs(secs: u64) -> (r: Duration)
                ensures r.ns() == secs as nat * 1_000_000_000
            { unimplemented!() }

            #[verifier::external_body]
            pub fn from_nanos(nanos: u64) -> (r: Duration)
                ensures r.ns() == nanos as nat
            { unimplemented!() }

            /// Whole seconds (std stores them in a u64, so they always fit).
            #[verifier::external_body]
            pub fn as_secs(&self) -> (r: u64)
                ensures r as nat == self.ns() / 1_000_000_000
            { unimplemented!() }

            #[verifier::external_body]
            pub fn subsec_nanos(&self) -> (r: u32)
                ensures r as nat == self.ns() % 1_000_000_000
            { unimplemented!() }
        }

        // `#[derive(PartialEq, PartialOrd)]` of std's Duration = comparison of the span.
        impl PartialEqSpecImpl for Duration {
            open spec fn obeys_eq_spec() -> bool { true }
            open spec fn eq_spec(&self, o: &Duration) -> bool { self.ns() == o.ns() }
        }
        impl PartialEq for Duration {
            #[verifier::external_body]
            fn eq(&self, o: &Duration) -> (r: bool) { unimplemented!() }
        }
        impl PartialOrdSpecImpl for Duration {
            open spec fn obeys_partial_cmp_spec() -> bool { true }
            open spec fn partial_cmp_spec(&self, o: &Duration) -> Option<Ordering> {
                if self.ns() < o.ns() { Some(Ordering::Less) }
                else if self.ns() == o.ns() { Some(Ordering::Equal) }
                else { Some(Ordering::Greater) }
            }
        }
        impl PartialOrd for Duration {
            #[verifier::external_body]
            fn partial_cmp(&self, o: &Duration) -> (r: Option<Ordering>) { unimplemented!() }
        }

        /// "Instant::now() returned `t` at some point" — an uninterpreted,
        /// positive-only fact, used so that contracts can only speak about clock
        /// readings that were really taken.
        pub uninterp spec fn clock_read(t: Instant) -> bool;

        impl Instant {
            pub uninterp spec fn ns(&self) -> nat;

            #[verifier::external_body]
            pub fn now() -> (r: Instant)
                ensures clock_read(r)
            { unimplemented!() }

            /// std: "Returns the amount of time elapsed from another instant to
            /// this one, or zero duration if that instant is later than this one."
            #[verifier::external_body]
            pub fn duration_since(&self, earlier: Instant) -> (r: Duration)
                ensures r.ns() == (if self.ns() >= earlier.ns() { (self.ns() - earlier.ns()) as nat } else { 0 })
            { unimplemented!() }

            /// std: `Some(t)` where `t` is `self - duration` if representable.
            /// Assumed: an instant not before the clock origin is representable.
            #[verifier::external_body]
            pub fn checked_sub(&self, duration: Duration) -> (r: Option<Instant>)
                ensures
                    self.ns() >= duration.ns() ==> r is Some && r->Some_0.ns() == self.ns() - duration.ns(),
            { unimplemented!() }
        }
    }

    // ------------------------------------------------------------------
    // std::sync::Mutex
    // ------------------------------------------------------------------
    pub mod sync {
        use vstd::prelude::*;

        #[derive(Debug)]
        pub struct PoisonError;

        /// std::sync::Mutex<T>.  The protected value is NOT part of the
        /// spec-level value of the mutex (other threads change it at any time).
        #[verifier::external_body]
        #[verifier::reject_recursive_types(T)]
        pub struct Mutex<T> { t: core::marker::PhantomData<T> }

        /// A MutexGuard is an exclusive borrow of the protected value that ends
        /// when the guard is dropped; it is modelled as exactly that.  Verus
        /// resolves `*final(guard)` to the value the protected data has when the
        /// borrow ends, i.e. at release.
        pub type MutexGuard<'a, T> = &'a mut T;

        impl<T> Mutex<T> {
            /// "an acquisition of this mutex observed `at_lock` and released
            /// `at_release`".  Uninterpreted and only ever established by `lock`,
            /// so a caller's postcondition `exists e0,e1. m.acquired(e0,e1) && R(e0,e1)`
            /// can only be discharged with the two ends of ONE real critical
            /// section.  Nothing is assumed about `at_lock` (lock invariant `true`):
            /// a second `lock()` yields an unrelated value.
            pub uninterp spec fn acquired(&self, at_lock: T, at_release: T) -> bool;

            #[verifier::external_body]
            pub fn new(t: T) -> (r: Mutex<T>)
            { unimplemented!() }

            /// ASSUMED: mutual exclusion (nobody else reads or writes the value
            /// between this call and the end of the guard's lifetime) and no
            /// poisoning (the real code `unwrap()`s the LockResult).
            #[verifier::external_body]
            pub fn lock(&self) -> (r: Result<MutexGuard<'_, T>, PoisonError>)
                ensures
                    r is Ok,
                    self.acquired(*(r->Ok_0), *final(r->Ok_0)),
            { unimplemented!() }
        }
    }

    // ------------------------------------------------------------------
    // std::net
    // ------------------------------------------------------------------
    pub mod net {
        use vstd::prelude::*;
        use vstd::std_specs::convert::*;

        /// std::net::Ipv4Addr, viewed as the 32-bit big-endian value a.b.c.d.
        pub struct Ipv4Addr { pub bits: u32 }
        /// std::net::Ipv6Addr, viewed as the 128-bit big-endian value.
        pub struct Ipv6Addr { pub bits: u128 }
        pub enum IpAddr { V4(Ipv4Addr), V6(Ipv6Addr) }

        impl Clone for Ipv4Addr { fn clone(&self) -> (r: Self) ensures r == *self { *self } }
        impl Copy for Ipv4Addr {}
        impl Clone for Ipv6Addr { fn clone(&self) -> (r: Self) ensures r == *self { *self } }
        impl Copy for Ipv6Addr {}
        impl Clone for IpAddr { fn clone(&self) -> (r: Self) ensures r == *self { *self } }
        impl Copy for IpAddr {}

        /// Octet `i` (0 = most significant) of a 128-bit big-endian value.
        pub open spec fn octet128(bits: u128, i: int) -> u8 {
            ((bits >> ((8 * (15 - i)) as u128)) & 0xff) as u8
        }

        impl Ipv4Addr {
            /// std: `Ipv4Addr::new(a, b, c, d)` is the address a.b.c.d.
            #[verifier::external_body]
            pub fn new(a: u8, b: u8, c: u8, d: u8) -> (r: Ipv4Addr)
                ensures r.bits == ((a as u32) << 24) | ((b as u32) << 16) | ((c as u32) << 8) | (d as u32)
            { unimplemented!() }
        }

        impl Ipv6Addr {
            /// std: the sixteen octets in network (big-endian) order.
            #[verifier::external_body]
            pub fn octets(&self) -> (r: [u8; 16])
                ensures forall|i: int| 0 <= i < 16 ==> r[i] == octet128(self.bits, i)
            { unimplemented!() }
        }

        impl IpAddr {
            #[verifier::external_body]
            pub fn is_ipv6(&self) -> (r: bool)
                ensures r == (*self is V6)
            { unimplemented!() }
        }

        // std: `u32::from(Ipv4Addr)` / `u128::from(Ipv6Addr)` use the big-endian octets.
        impl FromSpecImpl<Ipv4Addr> for u32 {
            open spec fn obeys_from_spec() -> bool { true }
            open spec fn from_spec(a: Ipv4Addr) -> u32 { a.bits }
        }
        impl From<Ipv4Addr> for u32 { fn from(a: Ipv4Addr) -> (r: u32) { a.bits } }
        impl FromSpecImpl<Ipv6Addr> for u128 {
            open spec fn obeys_from_spec() -> bool { true }
            open spec fn from_spec(a: Ipv6Addr) -> u128 { a.bits }
        }
        impl From<Ipv6Addr> for u128 { fn from(a: Ipv6Addr) -> (r: u128) { a.bits } }
    }

    // ------------------------------------------------------------------
    // std::hash / std::collections::hash_map::RandomState
    // ------------------------------------------------------------------
    pub mod hash {
        use vstd::prelude::*;

        /// What a type's `Hash` impl feeds to the hasher, as a sequence of
        /// integers.  Stand-in for `std::hash::Hash`.
        pub trait HashView {
            spec fn hash_view(&self) -> Seq<int>;
        }
        impl<'a, T: HashView + ?Sized> HashView for &'a T {
            open spec fn hash_view(&self) -> Seq<int> { (**self).hash_view() }
        }

        /// std RandomState: a keyed hash function fixed at construction.
        #[verifier::external_body]
        pub struct RandomState { s: std::collections::hash_map::RandomState }

        impl RandomState {
            /// The (uninterpreted) keyed hash function: a deterministic function
            /// of the state and of what the value's `Hash` impl writes.
            pub uninterp spec fn h(&self, data: Seq<int>) -> u64;

            #[verifier::external_body]
            pub fn new() -> (r: RandomState)
            { unimplemented!() }

            /// std `BuildHasher::hash_one`.
            #[verifier::external_body]
            pub fn hash_one<T: HashView>(&self, x: T) -> (r: u64)
                ensures r == self.h(x.hash_view())
            { unimplemented!() }
        }
    }

    // ------------------------------------------------------------------
    // std::borrow::Cow (only `Deref`)
    // ------------------------------------------------------------------
    pub mod borrow {
        use vstd::prelude::*;

        #[verifier::external_body]
        #[verifier::reject_recursive_types(B)]
        pub struct Cow<'a, B: 'a> { b: &'a B }

        impl<'a, B> Cow<'a, B> {
            pub uninterp spec fn val(&self) -> &B;
        }
        impl<'a, B> core::ops::Deref for Cow<'a, B> {
            type Target = B;
            #[verifier::external_body]
            fn deref(&self) -> (r: &B)
                ensures r == self.val()
            { unimplemented!() }
        }
    }

    // ------------------------------------------------------------------
    // rand (external): only that the drawn value lies in the range.
    // ------------------------------------------------------------------
    pub mod rand {
        use vstd::prelude::*;

        #[verifier::external_body]
        pub struct ThreadRng { x: u8 }

        #[verifier::external_body]
        pub fn thread_rng() -> (r: ThreadRng)
        { unimplemented!() }

        impl ThreadRng {
            /// rand 0.8 `Rng::gen_range` panics on an empty range.
            #[verifier::external_body]
            pub fn gen_range(&mut self, range: core::ops::Range<usize>) -> (r: usize)
                requires range.start < range.end,
                ensures range.start <= r < range.end,
            { unimplemented!() }
        }
    }

    /// std `Result::unwrap_or` (used by the proposed fix for C26).
    #[verifier::allow(undeclared_external_trait)]
    pub assume_specification<T, E> [core::result::Result::<T, E>::unwrap_or] (a: Result<T, E>, d: T) -> (r: T)
        where E: core::marker::Destruct, T: core::marker::Destruct,
        ensures a is Ok ==> r == a->Ok_0, a is Err ==> r == d;

    /// Target of rewrite RL2: `s.iter().all(|o| *o == 0)` on a byte slice.
    #[verifier::external_body]
    pub fn vq_all_zero(s: &[u8]) -> (r: bool)
        ensures r == (forall|i: int| 0 <= i < s@.len() ==> s@[i] == 0)
    { unimplemented!() }
}
