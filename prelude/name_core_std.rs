// TRUSTED PRELUDE (unit name_core, C16): std items used by src/name/{mod,label,lowercase}.rs
// that vstd does not specify.  Each gets the contract its std documentation states,
// in terms of the reference functions of specs/name_core.rs (`lower`, `lower_seq`, `ci_eq`).
//   * u8::to_ascii_lowercase: "ASCII letters 'A' to 'Z' are mapped to 'a' to 'z', but
//     non-ASCII letters are unchanged".
//   * <[u8]>::eq_ignore_ascii_case: "Same as to_ascii_lowercase(a) == to_ascii_lowercase(b),
//     but without allocating and copying temporaries" (same length, octet-wise equal after folding).
//   * <[u8]>::make_ascii_lowercase: converts the slice to its ASCII lower case equivalent in place.
//   * Ordering::is_ne: `self != Equal`.
//   * Option::filter: None if None, else calls the predicate on the value: Some(t) if true, None if false.
//   * VqHasher: stand-in for `std::hash::Hasher` (signature substitution `H: Hasher` ->
//     `H: VqHasher` in the three `hash` functions).  A Hasher is, for the purposes of
//     the Hash/Eq contract, the stream of octets it has been fed; `write_u8(i)` appends `i`
//     (std: `fn write_u8(&mut self, i: u8) { self.write(&[i]) }`).
pub mod name_core_std {
    use vstd::prelude::*;
    use core::cmp::Ordering;
    use crate::spec_name_core::*;

    pub assume_specification [u8::to_ascii_lowercase] (b: &u8) -> (r: u8)
        ensures r == lower(*b);

    pub assume_specification [<[u8]>::eq_ignore_ascii_case] (a: &[u8], b: &[u8]) -> (r: bool)
        ensures r == ci_eq(a@, b@);

    pub assume_specification [<[u8]>::make_ascii_lowercase] (s: &mut [u8])
        ensures final(s)@ == lower_seq(old(s)@);

    pub assume_specification [core::cmp::Ordering::is_ne] (o: Ordering) -> (r: bool)
        ensures r == (o != Ordering::Equal);

    pub assume_specification<T, P> [core::option::Option::<T>::filter] (o: Option<T>, p: P) -> (r: Option<T>)
        where P: FnOnce(&T) -> bool + core::marker::Destruct, T: core::marker::Destruct,
        requires o is Some ==> p.requires((&o->Some_0,)),
        ensures
            o is None ==> r is None,
            o is Some ==> ((r is Some && r == o && p.ensures((&o->Some_0,), true)) || (r is None && p.ensures((&o->Some_0,), false)));

    /// Stand-in for `std::hash::Hasher`: the octets fed so far.
    pub trait VqHasher {
        spec fn fed(&self) -> Seq<u8>;

        fn write_u8(&mut self, i: u8)
            ensures final(self).fed() == old(self).fed().push(i);
    }
}
