// TRUSTED PRELUDE (writer units): accessors of `crate::name::Name` used by the
// writer, over the ghost views of prelude/name.rs, and a stand-in for
// `LowercaseName` (#[repr(transparent)] newtype of Name with Deref<Target=Name>).
// Specs follow src/name/mod.rs: `wire_repr()` is the uncompressed wire form,
// `len()` the number of labels (including the null label), `wire_repr_to(n)`
// the first n labels (panics for n > len, hence the `requires`).
pub mod name_standin_w {
    use vstd::prelude::*;
    use crate::spec_name::*;
    use crate::name_standin::Name;

    impl Name {
        #[verifier::external_body]
        pub fn wire_repr(&self) -> (r: &[u8])
            ensures r@ == self.wire()
        { unimplemented!() }

        #[verifier::external_body]
        pub fn len(&self) -> (r: usize)
            ensures r == self.offsets().len(),
        { unimplemented!() }

        #[verifier::external_body]
        pub fn wire_repr_to(&self, n: usize) -> (r: &[u8])
            requires n <= self.offsets().len()
            ensures
                n == self.offsets().len() ==> r@ == self.wire(),
                n < self.offsets().len() ==> r@ == self.wire().subrange(0, self.offsets()[n as int] as int),
        { unimplemented!() }

        pub uninterp spec fn root_spec() -> &'static Name;

        /// `Name::root()`: the name consisting of the null label only.
        #[verifier::external_body]
        pub fn root() -> (r: &'static Name)
            ensures r == Self::root_spec(), r.wire() == seq![0u8], r.offsets() == seq![0u8], r.wf(),
        { unimplemented!() }
    }

    #[verifier::external_body]
    pub struct LowercaseName { x: Vec<u8> }

    impl LowercaseName {
        pub uninterp spec fn name(&self) -> &Name;
    }

    impl core::ops::Deref for LowercaseName {
        type Target = Name;
        #[verifier::external_body]
        fn deref(&self) -> (r: &Name)
            ensures r == self.name()
        { unimplemented!() }
    }
}
