// TRUSTED PRELUDE (unit name_core, C16): the `unsafe` pointer casts of src/name/label.rs,
// included inside `mod name::label` of the unit.  `Label` is `#[repr(transparent)]` over
// `[u8]`; the casts re-type a slice reference.  Contract of each: same octets.
//   * `Label::from_unchecked(&[u8]) -> &Label`, `Label::from_unchecked_mut(&mut [u8]) -> &mut Label`
//     (`&*(octets as *const [u8] as *const Label)`).
//   * `Label::asterisk()`: `from_unchecked` of a function-local `static ASTERISK_LABEL: &[u8; 1] = b"*"`
//     (an item statement inside a function body, which Verus does not accept): the label `*`.
impl Label {
    #[verifier::external_body]
    pub fn from_unchecked(octets: &[u8]) -> (r: &Self)
        ensures r.octets@ == octets@,
    { unimplemented!() }

    #[verifier::external_body]
    pub fn from_unchecked_mut(octets: &mut [u8]) -> (r: &mut Self)
        ensures
            r.octets@ == old(octets)@,
            final(octets)@ == final(r).octets@,
    { unimplemented!() }

    #[verifier::external_body]
    pub fn asterisk() -> (r: &'static Self)
        ensures r.octets@ == seq![42u8],
    { unimplemented!() }
}
