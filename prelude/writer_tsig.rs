// TRUSTED PRELUDE (writer units): the TSIG signing interface used by
// Writer::set_tsig / Writer::finish_with_mac (src/message/tsig.rs:596-725).
// TSIG correctness (what is signed, the MAC) belongs to the TSIG units; here
// the signer is an external stand-in that returns an ARBITRARY MAC of the
// algorithm's output size and TSIG RDATA of the length fixed by RFC 8945
// section 4.2:  algorithm name + 6 (time) + 2 (fudge) + 2 (MAC size) + MAC
// + 2 (original id) + 2 (error) + 2 (other len) + other data.
// `sign_response` / `sign_subsequent` REQUIRE the prior MAC to be at most
// 65,535 octets (the real functions `assert!` it).  All three signers REQUIRE what the
// TSIG unit's verified contracts (units/frag/tsig_fns.vrs) require: a valid key name, a message
// of at least 12 octets whose ARCOUNT field is at least 1 (add_modified_message subtracts the
// TSIG RR from it); `unsigned` requires a valid algorithm name.
pub mod tsig_standin_w {
    use vstd::prelude::*;
    use crate::name_standin::Name;
    use crate::spec_writer::hdr16;
    use crate::name_standin_w::LowercaseName;
    use crate::rdata_standin_w::Rdata;
    use crate::message::tsig::{Algorithm, PreparedTsigRr};

    /// Length of the "other data" field: the 48-bit server time for BADTIME (18).
    pub open spec fn other_len(rr: PreparedTsigRr) -> int { if rr.error.0 == 18 { 6 } else { 0 } }

    /// RFC 8945 4.2 RDATA length.
    pub open spec fn tsig_rdata_len(rr: PreparedTsigRr, alg_wire_len: int, mac_len: int) -> int {
        alg_wire_len + 16 + mac_len + other_len(rr)
    }

    impl Algorithm {
        pub uninterp spec fn name_spec(&self) -> &'static LowercaseName;
        pub uninterp spec fn output_size_spec(&self) -> usize;

        #[verifier::external_body]
        pub fn name(&self) -> (r: &'static LowercaseName)
            ensures r == self.name_spec(), r.name().wf(),
        { unimplemented!() }

        /// 20 (HMAC-SHA1) or 32 (HMAC-SHA256); only a bound is assumed.
        #[verifier::external_body]
        pub fn output_size(&self) -> (r: usize)
            ensures r == self.output_size_spec(), r <= 64,
        { unimplemented!() }
    }

    impl PreparedTsigRr {
        #[verifier::external_body]
        pub fn sign_request(&self, message: &[u8], algorithm: Algorithm, key: &[u8]) -> (r: (Box<Rdata>, Box<[u8]>))
            requires self.key_name.name().wf(), message@.len() >= 12, hdr16(message@, 10) >= 1,
            ensures
                r.1@.len() == algorithm.output_size_spec(),
                r.0.octets().len() == tsig_rdata_len(*self, algorithm.name_spec().name().wire().len() as int, algorithm.output_size_spec() as int),
        { unimplemented!() }

        #[verifier::external_body]
        pub fn sign_response(&self, message: &[u8], request_mac: &[u8], algorithm: Algorithm, key: &[u8]) -> (r: (Box<Rdata>, Box<[u8]>))
            requires request_mac@.len() <= 65535, self.key_name.name().wf(), message@.len() >= 12, hdr16(message@, 10) >= 1,
            ensures
                r.1@.len() == algorithm.output_size_spec(),
                r.0.octets().len() == tsig_rdata_len(*self, algorithm.name_spec().name().wire().len() as int, algorithm.output_size_spec() as int),
        { unimplemented!() }

        #[verifier::external_body]
        pub fn sign_subsequent(&self, message: &[u8], prior_mac: &[u8], algorithm: Algorithm, key: &[u8]) -> (r: (Box<Rdata>, Box<[u8]>))
            requires prior_mac@.len() <= 65535, self.key_name.name().wf(), message@.len() >= 12, hdr16(message@, 10) >= 1,
            ensures
                r.1@.len() == algorithm.output_size_spec(),
                r.0.octets().len() == tsig_rdata_len(*self, algorithm.name_spec().name().wire().len() as int, algorithm.output_size_spec() as int),
        { unimplemented!() }

        #[verifier::external_body]
        pub fn unsigned(&self, algorithm: &LowercaseName) -> (r: Box<Rdata>)
            requires algorithm.name().wf(),
            ensures
                r.octets().len() == tsig_rdata_len(*self, algorithm.name().wire().len() as int, 0),
        { unimplemented!() }
    }
}
