// TRUSTED PRELUDE (unit rdata): the `unsafe` / allocating constructors of
// `crate::rr::rdata::Rdata` and the accessor `Name::wire_repr`.
//
// `Rdata` itself (`#[repr(transparent)] struct Rdata { octets: [u8] }`) is NOT a
// stand-in: the unit copies the struct from /repo and its view is the field
// `octets@ : Seq<u8>`.  What cannot be verified are the three places where the
// crate builds an `Rdata` through a raw-pointer cast of a `[u8]`
// (src/rr/rdata/mod.rs: `from_unchecked`, `ToOwned::to_owned`,
// `TryFrom<Vec<u8>> for Box<Rdata>`).  Each is given here the signature of the
// real item and the contract "same octets" (the cast is sound because of
// `#[repr(transparent)]`); the 65535-octet limit test of the `Vec` conversion is
// part of its contract, so a caller's `.unwrap()` is an obligation `len <= 65535`.
pub mod rdata_standin {
    use vstd::prelude::*;
    use crate::rr::rdata::{Rdata, RdataTooLongError};
    use crate::name_standin::Name;

    impl Rdata {
        /// Invariant of every `Rdata` built through the checked constructors.
        pub open spec fn wf(&self) -> bool { self.octets@.len() <= 65535 }

        /// src/rr/rdata/mod.rs `Rdata::from_unchecked`: `&*(octets as *const [u8] as *const Self)`.
        #[verifier::external_body]
        pub fn from_unchecked(octets: &[u8]) -> (r: &Self)
            ensures r.octets@ == octets@,
        { unimplemented!() }
    }

    /// src/rr/rdata/mod.rs `impl ToOwned for Rdata`: boxed copy of the octets.
    impl ToOwned for Rdata {
        type Owned = Box<Self>;

        #[verifier::external_body]
        fn to_owned(&self) -> (r: Box<Rdata>)
            ensures r.octets@ == self.octets@,
        { unimplemented!() }
    }

    /// src/rr/rdata/mod.rs `impl TryFrom<Vec<u8>> for Box<Rdata>`: fails exactly
    /// when the vector is longer than u16::MAX, else the same octets.
    impl TryFrom<Vec<u8>> for Box<Rdata> {
        type Error = RdataTooLongError;

        #[verifier::external_body]
        fn try_from(vec: Vec<u8>) -> (r: Result<Self, Self::Error>)
            ensures
                vec@.len() <= 65535 ==> r is Ok && r->Ok_0.octets@ == vec@,
                vec@.len() > 65535 ==> r is Err,
        { unimplemented!() }
    }

    impl vstd::std_specs::convert::TryFromSpecImpl<Vec<u8>> for Box<Rdata> {
        open spec fn obeys_try_from_spec() -> bool { false }
        open spec fn try_from_spec(v: Vec<u8>) -> Result<Self, RdataTooLongError> { arbitrary() }
    }

    impl<'a> vstd::std_specs::convert::TryFromSpecImpl<&'a [u8]> for &'a Rdata {
        open spec fn obeys_try_from_spec() -> bool { false }
        open spec fn try_from_spec(v: &'a [u8]) -> Result<Self, RdataTooLongError> { arbitrary() }
    }

    impl Name {
        /// src/name/mod.rs `Name::wire_repr`: the uncompressed wire form.
        #[verifier::external_body]
        pub fn wire_repr(&self) -> (r: &[u8])
            ensures r@ == self.wire(),
        { unimplemented!() }
    }
}
