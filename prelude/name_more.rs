// TRUSTED PRELUDE: a few public accessors of `crate::name::Name` (bodies are thin
// slices of the DST in src/name/mod.rs), so that callers using them still
// type-check against the stand-in.
pub mod name_more {
    use vstd::prelude::*;
    use crate::name_standin::Name;
    use crate::spec_name::*;

    impl Name {
        /// src/name/mod.rs `wire_repr`: the uncompressed on-the-wire form.
        #[verifier::external_body]
        pub fn wire_repr(&self) -> (r: &[u8])
            ensures r@ == self.wire()
        { unimplemented!() }

        /// src/name/mod.rs `is_root`: whether the name is the root (a single null label).
        #[verifier::external_body]
        pub fn is_root(&self) -> (r: bool)
            ensures self.wf() ==> r == (self.wire() == seq![0u8])
        { unimplemented!() }
    }
}
