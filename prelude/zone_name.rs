// TRUSTED PRELUDE (unit zone): stand-ins for `crate::name::{Name, Label, LabelBuf}`
// seen through their case-folded label view.  `Name`'s own behaviour (labels,
// case-insensitive label equality/hash, `superdomain`, `eq_or_subdomain_of`) is the
// subject of properties C14/C16; here each method gets the contract its
// documentation states, in terms of `labels()`:
//   labels() = the name's labels, leftmost first, the last one the root label,
//              each with ASCII letters case-folded (Label's Eq/Hash are
//              case-insensitive, src/name/label.rs).
// Methods that panic in the real crate carry that as a `requires`
// (`Index<usize>`: index < len()).
pub mod zname {
    use vstd::prelude::*;
    use crate::spec_zone::*;

    #[verifier::external_body]
    pub struct Name { x: [u8] }

    #[verifier::external]
    impl ToOwned for Name {
        type Owned = Box<Name>;
        fn to_owned(&self) -> Box<Name> { unimplemented!() }
    }

    impl Name {
        pub uninterp spec fn labels(&self) -> NameK;

        /// `Name::len`: number of labels, root label included ("a domain name is never empty").
        #[verifier::external_body]
        pub fn len(&self) -> (r: usize)
            ensures r == self.labels().len(), r >= 1,
        { unimplemented!() }

        /// Target of rewrite R5 (`&name[i]`, `Index<usize> for Name`; panics if out of range).
        #[verifier::external_body]
        pub fn label(&self, i: usize) -> (r: &Label)
            requires i < self.labels().len(),
            ensures r.key() == self.labels()[i as int],
        { unimplemented!() }

        /// `Name::eq_or_subdomain_of`: "equal to or a subdomain of `other`".
        #[verifier::external_body]
        pub fn eq_or_subdomain_of(&self, other: &Name) -> (r: bool)
            ensures r == at_or_below(self.labels(), other.labels()),
        { unimplemented!() }

        /// `Name::superdomain`: "the superdomain obtained by skipping the first
        /// `skip` labels, or `None` if there aren't enough labels".
        #[verifier::external_body]
        pub fn superdomain(&self, skip: usize) -> (r: Option<Box<Name>>)
            ensures
                skip < self.labels().len() ==> r is Some && r->Some_0.labels() == self.labels().skip(skip as int),
                skip >= self.labels().len() ==> r is None,
        { unimplemented!() }
    }

    #[verifier::external_body]
    pub struct Label { x: [u8] }

    impl Label {
        /// Case-folded octets: the identity of the label under its Eq/Hash impls.
        pub uninterp spec fn key(&self) -> LabelK;

        /// `Label::asterisk()`: the label `*`.
        #[verifier::external_body]
        pub fn asterisk() -> (r: &'static Label)
            ensures r.key() == asterisk(),
        { unimplemented!() }

        /// `ToOwned for Label` (Owned = LabelBuf): same label.
        #[verifier::external_body]
        pub fn to_owned(&self) -> (r: LabelBuf)
            ensures r.key() == self.key(),
        { unimplemented!() }
    }

    #[verifier::external_body]
    pub struct LabelBuf { x: Vec<u8> }

    impl LabelBuf {
        pub uninterp spec fn key(&self) -> LabelK;
    }

    /// Label view of a `Cow<Name>` (either variant).
    pub open spec fn cow_labels(c: std::borrow::Cow<'_, Name>) -> NameK {
        match c {
            std::borrow::Cow::Borrowed(n) => n.labels(),
            std::borrow::Cow::Owned(b) => b.labels(),
        }
    }
}
