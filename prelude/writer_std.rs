// TRUSTED PRELUDE (writer units): std shims needed by src/message/writer.rs.
// Every item here is an assumption listed in the evidence `trusted_base`.
pub mod vq_w {
    use vstd::prelude::*;
    use crate::vq::*;

    // ------------------------------------------------------------ big endian
    use crate::spec_writer::{u16_be, u32_be};

    /// Target of rewrite R2 for `X.to_be_bytes()`: `be_to(X)`.  The spec is the
    /// big-endian definition (most significant octet first).
    pub trait BeTo: Sized {
        type Out;
        spec fn be_seq(self) -> Seq<u8>;
        spec fn out_seq(o: Self::Out) -> Seq<u8>;
        fn be_to_impl(self) -> (r: Self::Out)
            ensures Self::out_seq(r) == self.be_seq();
    }
    impl BeTo for u16 {
        type Out = [u8; 2];
        open spec fn be_seq(self) -> Seq<u8> { u16_be(self) }
        open spec fn out_seq(o: [u8; 2]) -> Seq<u8> { o@ }
        #[verifier::external_body]
        fn be_to_impl(self) -> (r: [u8; 2]) { self.to_be_bytes() }
    }
    impl BeTo for u32 {
        type Out = [u8; 4];
        open spec fn be_seq(self) -> Seq<u8> { u32_be(self) }
        open spec fn out_seq(o: [u8; 4]) -> Seq<u8> { o@ }
        #[verifier::external_body]
        fn be_to_impl(self) -> (r: [u8; 4]) { self.to_be_bytes() }
    }
    pub fn be_to<T: BeTo>(x: T) -> (r: T::Out)
        ensures T::out_seq(r) == x.be_seq()
    { x.be_to_impl() }

    // ------------------------------------------------------------ NonZeroU16
    /// Stand-in for core::num::NonZeroU16.
    #[verifier::external_body]
    #[derive(Clone, Copy, Debug, PartialEq, Eq)]
    pub struct NonZeroU16 { x: u16 }

    impl NonZeroU16 {
        pub uninterp spec fn v(&self) -> u16;

        #[verifier::external_body]
        pub const fn new(n: u16) -> (r: Option<Self>)
            ensures
                n == 0 ==> r is None,
                n != 0 ==> r is Some && r->Some_0.v() == n,
        { unimplemented!() }

        #[verifier::external_body]
        pub const fn get(self) -> (r: u16)
            ensures r == self.v(), r != 0
        { unimplemented!() }
    }

    // ------------------------------------------------------------ Option / slice
    /// Only the shape of the result is specified; nothing is promised about the
    /// referent (the writer never reads a HintPointerVec it is given).
    pub assume_specification<T> [core::option::Option::<T>::as_deref_mut] (o: &mut Option<T>) -> (r: Option<&mut <T as core::ops::Deref>::Target>)
        where T: core::ops::DerefMut,
        ensures (r is Some) == (*old(o) is Some);

    /// (The element-wise clause is meant for `Copy` element types -- the writer fills `u8`s --
    /// where the clone stored equals the value given.)
    pub assume_specification<T> [<[T]>::fill] (s: &mut [T], v: T)
        where T: core::clone::Clone,
        ensures
            final(s)@.len() == old(s)@.len(),
            forall|i: int| 0 <= i < old(s)@.len() ==> #[trigger] final(s)@[i] == v;
}
