// TRUSTED PRELUDE (unit rrl): stand-ins for the parts of crate::message the
// RRL touches.  Included INSIDE `pub mod message` of the unit (ExtendedRcode and
// Opcode are extracted from /repo next to it).  Reader/Writer are verified in
// their own units (C12/C13, C15); here only the accessors the RRL calls are
// given, with the weakest contracts needed.

    /// crate::message::Reader — only the header opcode is observed.
    #[verifier::external_body]
    pub struct Reader<'b> { b: &'b [u8] }
    impl<'b> Reader<'b> {
        pub uninterp spec fn opcode_view(&self) -> Opcode;
        #[verifier::external_body]
        pub fn opcode(&self) -> (r: Opcode)
            ensures r == self.opcode_view()
        { unimplemented!() }
    }

    /// Abstract view of the response under construction.
    pub struct WriterView {
        /// TC (truncation) bit of the header.
        pub tc: bool,
        /// Number of resource records in the message other than OPT / TSIG.
        pub n_rrs: nat,
        /// Extended RCODE (header RCODE + EDNS upper bits).
        pub xrcode: ExtendedRcode,
    }

    /// crate::message::Writer.
    #[verifier::external_body]
    pub struct Writer<'b> { b: &'b mut [u8] }
    impl<'b> Writer<'b> {
        pub uninterp spec fn view(&self) -> WriterView;
        /// Everything about the writer that is not in `WriterView` (ID, flags
        /// other than TC, question, EDNS/TSIG reservations, limits, ...).
        pub uninterp spec fn rest(&self) -> int;

        /// writer.rs `extended_rcode`: reads header + EDNS bits.
        #[verifier::external_body]
        pub fn extended_rcode(&self) -> (r: ExtendedRcode)
            ensures r == self@.xrcode
        { unimplemented!() }

        /// writer.rs `clear_rrs`: "Removes any resource records previously added
        /// to the message" (counts reset to the OPT/TSIG reservations, cursor
        /// back to the end of the question).
        #[verifier::external_body]
        pub fn clear_rrs(&mut self)
            ensures
                final(self)@ == (WriterView { n_rrs: 0, ..old(self)@ }),
                final(self).rest() == old(self).rest(),
        { unimplemented!() }

        /// writer.rs `set_tc`: sets or clears the TC bit, nothing else.
        #[verifier::external_body]
        pub fn set_tc(&mut self, tc: bool)
            ensures
                final(self)@ == (WriterView { tc: tc, ..old(self)@ }),
                final(self).rest() == old(self).rest(),
        { unimplemented!() }
    }

    #[verifier::external_body]
    pub struct Qtype { x: u16 }
    #[verifier::external_body]
    pub struct Qclass { x: u16 }
    #[verifier::external_body]
    pub struct LowercaseName { x: u8 }
