// TRUSTED PRELUDE (unit name_text, C16): std items used by `FromStr for Box<Name>`
// and `parse_escape` (src/name/mod.rs), and the two `Name` functions the root
// special case calls.
pub mod name_text_std {
    use vstd::prelude::*;
    use crate::spec_name::*;
    use crate::name_standin::Name;

    /// The UTF-8 octets of a string (`str::as_bytes`).  `str` is opaque here.
    pub uninterp spec fn str_bytes(s: &str) -> Seq<u8>;

    /// `impl AsRef<[u8]> for str` is `as_bytes`.
    pub assume_specification [<str as core::convert::AsRef<[u8]>>::as_ref] (s: &str) -> (r: &[u8])
        ensures r@ == str_bytes(s),
    ;

    /// Connects the octets to vstd's `Seq<char>` view for the two cases the code
    /// tests on the `&str` itself: the empty string has no octets, and "." is the
    /// one octet 0x2E (UTF-8 encodes U+002E as 2E and nothing else as 2E alone).
    #[verifier::external_body]
    pub proof fn axiom_str_bytes_empty_dot(s: &str)
        ensures
            (str_bytes(s).len() == 0) == (s@.len() == 0),
            (str_bytes(s) =~= seq![46u8]) == (s@ =~= seq!['.']),
    {}

    pub assume_specification [u8::is_ascii] (c: &u8) -> (r: bool)
        ensures r == (*c < 128),
    ;

    pub assume_specification [u8::is_ascii_digit] (c: &u8) -> (r: bool)
        ensures r == (48 <= *c <= 57),
    ;

    impl Name {
        /// `Name::root()`: the static name `.` (wire form `00`, one label at offset 0).
        #[verifier::external_body]
        pub fn root() -> (r: &'static Name)
            ensures r.wf(), r.wire() == seq![0u8],
        { unimplemented!() }

        /// `ToOwned for Name`: a boxed copy (same wire form, same offsets).
        #[verifier::external_body]
        pub fn to_owned(&self) -> (r: Box<Name>)
            ensures r.wire() == self.wire(), r.offsets() == self.offsets(),
        { unimplemented!() }
    }
}
