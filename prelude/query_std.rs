// TRUSTED PRELUDE (query units): std shims needed by src/server/query.rs.
// Every item here is an assumption listed in the evidence `trusted_base`.
pub mod vq_q {
    use vstd::prelude::*;

    /// Error of the slice -> array conversion (stand-in for core::array::TryFromSliceError).
    pub struct SliceLenError;

    /// Target of rewrite RQ2: `<[u8; N]>::try_from(&[u8])` reached through `slice.try_into()`.
    /// std: "Tries to create an array [T; N] by copying from a slice &[T]. Succeeds if
    /// slice.len() == N."
    #[verifier::external_body]
    pub fn vq_slice_try_array<const N: usize>(s: &[u8]) -> (r: Result<[u8; N], SliceLenError>)
        ensures
            s@.len() == N ==> r is Ok && r->Ok_0@ == s@,
            s@.len() != N ==> r is Err,
    { unimplemented!() }
}
