// TRUSTED PRELUDE for unit rdata_eq: equality of `Name`s.
//
// `impl PartialEq for Name` (src/name/mod.rs) is
//     self.len() == other.len() && self.labels().zip(other.labels()).all(|(a, b)| a == b)
// with `Label::eq` = `eq_ignore_ascii_case` on the label octets: an iterator
// adaptor chain with a closure, which Verus does not accept.  It is stated here
// over the wire view: two well-formed names are `==` iff their wire forms are
// ASCII-case-insensitively equal (same label lengths - a length octet is <= 63
// and is not a letter, so folding leaves it alone - and same letters up to case).
// Nothing is said about ill-formed `Name`s (there are none: `wf` is the type
// invariant established by `new_boxed_name`'s precondition).
pub mod rdata_eq_std {
    use vstd::prelude::*;
    use vstd::std_specs::cmp::{PartialEqSpec, PartialEqSpecImpl};
    use crate::name_standin::*;
    use crate::spec_rdata_eq::*;

    pub uninterp spec fn name_eq_unspec(a: &Name, b: &Name) -> bool;

    impl PartialEqSpecImpl for Name {
        open spec fn obeys_eq_spec() -> bool { true }
        open spec fn eq_spec(&self, other: &Name) -> bool {
            if self.wf() && other.wf() { ci_eq(self.wire(), other.wire()) } else { name_eq_unspec(self, other) }
        }
    }

    impl PartialEq for Name {
        #[verifier::external_body]
        fn eq(&self, other: &Self) -> (r: bool)
        { unimplemented!() }
    }

    /// std: `impl<T: ?Sized + PartialEq> PartialEq for Box<T>` forwards to `T::eq`.
    #[verifier::external_body]
    pub proof fn axiom_box_name_eq(a: Box<Name>, b: Box<Name>)
        ensures
            <Box<Name> as PartialEqSpec>::obeys_eq_spec(),
            <Box<Name> as PartialEqSpec>::eq_spec(&a, &b) == <Name as PartialEqSpec>::eq_spec(&*a, &*b),
    {}

    /// `==` on octet slices is equality of the views (proved from vstd's
    /// element-wise specification; not an assumption).
    pub broadcast proof fn lemma_slice_u8_eq(a: &[u8], b: &[u8])
        ensures #[trigger] <[u8] as PartialEqSpec>::eq_spec(a, b) == (a@ == b@),
    {
        if <[u8] as PartialEqSpec>::eq_spec(a, b) {
            assert(a@ =~= b@);
        }
        if a@ == b@ {
            assert(a@.len() == b@.len() && forall|i: int| 0 <= i < a@.len() ==> <u8 as PartialEqSpec>::eq_spec(&#[trigger] a@[i], &b@[i]));
        }
    }
}
