// TRUSTED PRELUDE (unit catalog, C22): label view of `crate::name::Name` and the
// `Name`/`Label`/`LabelBuf` accessors used by the catalog code.  Extends
// prelude/name.rs (which is not edited).  `labels(n)` is DEFINED from the wire
// form (specs/name.rs `name_offsets`/`label_starts`); the accessors below are
// external_body: their real bodies (src/name/mod.rs, src/name/label.rs) index the
// DST's offset table / use iterator adaptor chains and are not verified here.
// Every ensures is conditional on `wf()` of the names involved (the type invariant
// the C14-verified constructors establish), so nothing is claimed about a `Name`
// that was not built by the module's constructors.
pub mod name_labels {
    use vstd::prelude::*;
    use vstd::std_specs::cmp::PartialEqSpecImpl;
    use crate::spec_name::*;
    use crate::name_standin::Name;

    /// ASCII lower-casing of one octet (RFC 4343).
    pub open spec fn lower(b: u8) -> u8 { if 65 <= b && b <= 90 { (b + 32) as u8 } else { b } }
    pub open spec fn lower_seq(s: Seq<u8>) -> Seq<u8> { Seq::new(s.len(), |i: int| lower(s[i])) }

    /// Octets of the label whose length octet is at offset `o` of the wire form `w`.
    pub open spec fn label_at(w: Seq<u8>, o: int) -> Seq<u8> { w.subrange(o + 1, o + 1 + w[o] as int) }

    /// Labels of the wire form `w`, ASCII-lower-cased, label 0 first, the null
    /// (root) label last.
    pub open spec fn wire_labels(w: Seq<u8>) -> Seq<Seq<u8>> {
        Seq::new(name_offsets(w).len(), |i: int| lower_seq(label_at(w, name_offsets(w)[i])))
    }

    /// The case-folded label sequence of a name: the key under which names are
    /// compared (RFC 1034 3.1 / RFC 4343: comparison is ASCII-case-insensitive).
    pub open spec fn labels(n: Name) -> Seq<Seq<u8>> { wire_labels(n.wire()) }

    /// `s` is a (non-strict) suffix of `n` in label terms: `n` is equal to or a
    /// subdomain of `s`.
    pub open spec fn is_suffix(s: Seq<Seq<u8>>, n: Seq<Seq<u8>>) -> bool {
        s.len() <= n.len() && n.skip(n.len() - s.len()) == s
    }

    /// Result of `Name::eq`; connected to `labels` for well-formed names by
    /// `axiom_name_eq`.
    pub uninterp spec fn name_eq(a: Name, b: Name) -> bool;

    /// `PartialEq for Name` compares label-wise with `Label::eq`
    /// (eq_ignore_ascii_case); for well-formed names that is equality of the
    /// case-folded label sequences.
    #[verifier::external_body]
    pub proof fn axiom_name_eq(a: Name, b: Name)
        requires a.wf(), b.wf(),
        ensures name_eq(a, b) == (labels(a) == labels(b)),
    {}

    /// Stand-in for `crate::name::Label` (unsized in the crate; only used behind `&`).
    #[verifier::external_body]
    pub struct Label { x: Vec<u8> }
    impl Label {
        /// ASCII-lower-cased octets: two labels are `==` (and hash alike) iff keys agree.
        pub uninterp spec fn key(&self) -> Seq<u8>;

        /// `ToOwned for Label` (copies the octets into a `LabelBuf`).
        #[verifier::external_body]
        pub fn to_owned(&self) -> (r: LabelBuf)
            ensures r.key() == self.key(),
        { unimplemented!() }
    }

    /// Stand-in for `crate::name::LabelBuf`.
    #[verifier::external_body]
    pub struct LabelBuf { x: Vec<u8> }
    impl LabelBuf {
        pub uninterp spec fn key(&self) -> Seq<u8>;
    }

    impl Name {
        /// `n_labels`, which `new_boxed_name` sets to `label_offsets.len()`.
        #[verifier::external_body]
        pub fn len(&self) -> (r: usize)
            ensures r == self.offsets().len(),
        { unimplemented!() }

        /// Target of rewrites R5 / RC2: `Index<usize> for Name` (panics when `i >= n_labels`).
        #[verifier::external_body]
        pub fn label(&self, i: usize) -> (r: &Label)
            requires i < self.offsets().len(),
            ensures self.wf() ==> r.key() == labels(*self)[i as int],
        { unimplemented!() }

        /// `Name::superdomain`: the name without its first `skip` labels.
        #[verifier::external_body]
        pub fn superdomain(&self, skip: usize) -> (r: Option<Box<Name>>)
            ensures
                skip >= self.offsets().len() ==> r is None,
                skip < self.offsets().len() ==> r is Some,
                (self.wf() && skip < self.offsets().len()) ==> r->Some_0.wf() && labels(*r->Some_0) == labels(*self).skip(skip as int),
        { unimplemented!() }

        /// `Name::root()`: the static name `.` (wire form `00`).
        #[verifier::external_body]
        pub fn root() -> (r: &'static Name)
            ensures r.wf(), r.wire() == seq![0u8],
        { unimplemented!() }

        /// `ToOwned for Name`: a boxed copy (same wire form, same offsets).
        #[verifier::external_body]
        pub fn to_owned(&self) -> (r: Box<Name>)
            ensures r.wire() == self.wire(), r.offsets() == self.offsets(),
        { unimplemented!() }

        /// `Name::eq_or_subdomain_of` (label iterators zipped from the right).
        #[verifier::external_body]
        pub fn eq_or_subdomain_of(&self, other: &Name) -> (r: bool)
            ensures (self.wf() && other.wf()) ==> r == is_suffix(labels(*other), labels(*self)),
        { unimplemented!() }
    }

    impl PartialEqSpecImpl for Name {
        open spec fn obeys_eq_spec() -> bool { true }
        open spec fn eq_spec(&self, other: &Self) -> bool { name_eq(*self, *other) }
    }
    impl PartialEq for Name {
        #[verifier::external_body]
        fn eq(&self, other: &Self) -> (r: bool) { unimplemented!() }
    }

    // ------------------------------------------------------------ proved facts

    /// A well-formed name has as many labels as offsets, at least one, and its
    /// last label is the null label.
    pub proof fn lemma_labels_basic(n: Name)
        requires n.wf(),
        ensures
            labels(n).len() == n.offsets().len(),
            labels(n).len() >= 1,
            labels(n).last() == Seq::<u8>::empty(),
    {
        let w = n.wire();
        let offs_ = name_offsets(w);
        assert(offs(n.offsets()).len() == n.offsets().len());
        assert(offs_.last() == w.len() - 1);
        assert(w[w.len() - 1] == 0);
        assert(label_at(w, w.len() - 1) =~= Seq::<u8>::empty());
        assert(lower_seq(Seq::<u8>::empty()) =~= Seq::<u8>::empty());
        assert(labels(n)[labels(n).len() - 1] == lower_seq(label_at(w, offs_[offs_.len() - 1])));
    }

    /// The root name has exactly one label, the null label.
    pub proof fn lemma_root_labels(n: Name)
        requires n.wire() == seq![0u8],
        ensures labels(n) == seq![Seq::<u8>::empty()],
    {
        let w = n.wire();
        assert(w.drop_last() =~= Seq::<u8>::empty());
        assert(label_starts(w.drop_last(), 0) =~= Seq::<int>::empty());
        assert(name_offsets(w) =~= seq![0int]);
        assert(label_at(w, 0) =~= Seq::<u8>::empty());
        assert(lower_seq(Seq::<u8>::empty()) =~= Seq::<u8>::empty());
        assert(labels(n) =~= seq![Seq::<u8>::empty()]);
    }

    /// Every name with the root's wire form has the root's labels.
    pub proof fn lemma_root_labels_all()
        ensures forall|n: Name| n.wire() == seq![0u8] ==> #[trigger] labels(n) == seq![Seq::<u8>::empty()],
    {
        assert forall|n: Name| n.wire() == seq![0u8] implies #[trigger] labels(n) == seq![Seq::<u8>::empty()] by {
            lemma_root_labels(n);
        }
    }

    /// A copy with the same wire form and offsets is well-formed and has the same labels.
    pub proof fn lemma_same_wire(a: Name, b: Name)
        requires a.wire() == b.wire(), a.offsets() == b.offsets(),
        ensures a.wf() == b.wf(), labels(a) == labels(b),
    {}
}
