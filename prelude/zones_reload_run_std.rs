// TRUSTED PRELUDE (zones_reload_run): stand-ins for the std / anyhow items that
// `reload_zones_and_keys` (src/bin/quandaryd/run.rs, property C31) uses in addition to those of
// prelude/zones_reload_std.rs.  Every item here is an assumption listed in the evidence.
pub mod zr_run_std {
    use vstd::prelude::*;
    use crate::zr_std::anyhow;

    /// std::path::Path (a DST in std; only used behind `&` here).
    #[verifier::external_body]
    pub struct Path { }

    /// anyhow::Context (the `impl<T, E> Context<T, E> for Result<T, E>`): `.context(msg)` keeps an
    /// Ok value as it is and turns an Err into an (anyhow) Err; nothing else.
    pub trait Context<T>: Sized {
        spec fn ok_value(self) -> Option<T>;
        fn context(self, context: &'static str) -> (r: anyhow::Result<T>)
            ensures
                r is Ok <==> self.ok_value() is Some,
                r is Ok ==> r->Ok_0 == self.ok_value()->Some_0;
    }
    impl<T, E> Context<T> for core::result::Result<T, E> {
        open spec fn ok_value(self) -> Option<T> {
            match self { Ok(t) => Some(t), Err(_) => None }
        }
        #[verifier::external_body]
        fn context(self, context: &'static str) -> (r: anyhow::Result<T>) { unimplemented!() }
    }
}
