// TRUSTED PRELUDE for unit rdata_set: std shims and the two `unsafe`
// repr(transparent) casts of src/rr (bodies not verified).
pub mod rdata_set_std {
    use vstd::prelude::*;
    use crate::spec_rdata_set::*;

    /// RS2 shim for u16::from_ne_bytes.
    #[verifier::external_body]
    pub fn ne16_from(b: [u8; 2]) -> (r: u16)
        ensures r == ne16(b[0], b[1])
    { u16::from_ne_bytes(b) }

    /// RS2 shim for u16::to_ne_bytes: only the round trip
    /// from_ne_bytes(to_ne_bytes(x)) == x is assumed.
    #[verifier::external_body]
    pub fn ne16_to(x: u16) -> (r: [u8; 2])
        ensures ne16(r[0], r[1]) == x
    { x.to_ne_bytes() }

    /// RS1 shim for `<&[T; N] as TryFrom<&[T]>>::try_from(s).ok()`.
    #[verifier::external_body]
    pub fn vq_slice_try_array_ref<'a, T, const N: usize>(s: &'a [T]) -> (r: Option<&'a [T; N]>)
        ensures
            s@.len() == N ==> r is Some && r->Some_0@ == s@,
            s@.len() != N ==> r is None,
    { s.try_into().ok() }

    /// TRUSTED: every octet string of RDATA size (<= 65535 octets) is the content
    /// of some `Rdata`.  A spec-level existence fact: Verus has no spec constructor
    /// for slices / unsized structs.  Used only to read the octets of the `&Rdata`
    /// items the set iterator is specified to yield (`rd_of`).
    #[verifier::external_body]
    pub proof fn axiom_rdata_exists(s: Seq<u8>)
        requires s.len() <= 65535,
        ensures exists|r: &'static crate::rr::rdata::Rdata| r.octets@ == s,
    {}
}
