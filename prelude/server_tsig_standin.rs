// TRUSTED PRELUDE (server units): the READING side of src/message/tsig.rs as ASSUMED
// CALLEE CONTRACTS of the server layer.  The real functions are under contract in
// the TSIG units (units/frag/tsig_fns.vrs, units tsig / tsig_rdata); their
// environment (own stand-ins for LowercaseName / Rdata / Algorithm::name) cannot
// be loaded next to the Writer's environment (prelude/writer_{name,rdata,tsig}.rs
// define the same items), so the clauses the server needs are restated here over
// UNINTERPRETED result functions.  Each item names the TSIG-unit clause it mirrors.
//
//   ReadTsigRr                  opaque; `wf()` = the representation invariant the TSIG unit
//                               proves for every value built by try_from ([C01.tsig_already_validated])
//   ReadTsigRr::try_from(rr)    NotTsig iff TYPE != 250; FormErr iff CLASS != ANY(255) or TTL != 0
//                               ([C10.tsig_rr_form]); else Ok, `wf`, key name = owner (canonical form).
//                               ASSUMED precondition made a hypothesis: for a TYPE-250 record the
//                               RDATA passed Rdata::validate_as_tsig - guaranteed by Reader::read_rr /
//                               Rdata::read (C15, C18), not restated in the reader's contract.
//   key_name / algorithm / mac  accessors ([C11.read_fields]); MAC at most 65,535 octets (u16 size field)
//   Algorithm::from_name(n)     Some(a) exactly when n equals a.name() up to ASCII case (prelude/tsig_alg.rs)
//   verify_request              requires a >= 12-octet message whose ARCOUNT counts the TSIG RR
//                               ([C11.arcount_no_underflow], the `arcount - 1` in add_modified_message) and
//                               an algorithm matching the RR's algorithm name (the `assert_eq!` in
//                               verification_core); result = uninterpreted `verify_spec`
//                               (the TSIG unit proves it is the RFC 8945 5.2 outcome, [C11.verify_request])
//   PreparedTsigRr::new_from_read   key name, fudge, error as given ([C10.badtime_times] for the times)
//   axiom_algorithm_name_ok     every Algorithm's static name is a well-formed Name of at most 13 octets
//                               ("hmac-sha1." 11, "hmac-sha256." 13: prelude/tsig_alg.rs `name_wire`) and its MAC is at
//                               most 32 octets (`hash_len`): prelude/writer_tsig.rs states wf / <= 64 only as postconditions of the
//                               exec fns `Algorithm::{name, output_size}`, but Writer::set_tsig REQUIRES it
//                               (`tsig_mode_ok`) also on paths where the server does not call them
//                               (TsigMode::Response).  MISSING in the writer prelude, hence ASSUMED here.
pub mod tsig_standin_s {
    use vstd::prelude::*;
    use crate::spec_name::*;
    use crate::spec_msg::u16_at;
    use crate::name_standin::Name;
    use crate::name_standin_w::LowercaseName;
    use crate::dns_types::ExtendedRcode;
    use crate::rr::rdata::TimeSigned;
    use crate::message::reader::ReadRr;
    pub use crate::message::tsig::{Algorithm, PreparedTsigRr};

//@item src/message/tsig.rs enum FromReadRrError
//@item src/message/tsig.rs enum VerificationError

    #[verifier::external_body]
    pub struct ReadTsigRr<'a> { x: core::marker::PhantomData<&'a u8> }

    /// `name` designates `a` (equal to `a.name()` under `Name::eq`).
    pub uninterp spec fn alg_named(name: Name, a: Algorithm) -> bool;
    pub uninterp spec fn alg_of_name(name: Name) -> Option<Algorithm>;

    /// A complete header whose ARCOUNT field counts at least the TSIG RR.
    pub open spec fn message_ok(m: Seq<u8>) -> bool { m.len() >= 12 && u16_at(m, 10) >= 1 }

    impl<'a> ReadTsigRr<'a> {
        /// The part of the representation invariant that concerns the RDATA layout (opaque here).
        pub uninterp spec fn inv(&self) -> bool;
        pub open spec fn wf(&self) -> bool {
            self.inv() && self.key_name_spec().name().wf() && self.algorithm_spec().name().wf()
        }
        pub uninterp spec fn key_name_spec(&self) -> &LowercaseName;
        pub uninterp spec fn algorithm_spec(&self) -> &LowercaseName;
        pub uninterp spec fn mac_spec(&self) -> Seq<u8>;
        /// RFC 8945 5.2 outcome of verifying the request `message` (without the TSIG RR).
        pub uninterp spec fn verify_spec(&self, message: Seq<u8>, algorithm: Algorithm, key: Seq<u8>, now: TimeSigned) -> Result<(), VerificationError>;

        #[verifier::external_body]
        pub fn key_name(&self) -> (r: &LowercaseName)
            ensures r == self.key_name_spec(),
        { unimplemented!() }

        #[verifier::external_body]
        pub fn algorithm(&self) -> (r: &LowercaseName)
            ensures r == self.algorithm_spec(),
        { unimplemented!() }

        #[verifier::external_body]
        pub fn mac(&self) -> (r: &[u8])
            requires self.wf(),
            ensures r@ == self.mac_spec(), r@.len() <= 65535,
        { unimplemented!() }

        #[verifier::external_body]
        pub fn verify_request(&self, message: &[u8], algorithm: Algorithm, key: &[u8], now: TimeSigned) -> (r: Result<(), VerificationError>)
            requires
                self.wf(),
                message_ok(message@),
                alg_named(*self.algorithm_spec().name(), algorithm),
            ensures r == self.verify_spec(message@, algorithm, key@, now),
        { unimplemented!() }
    }

    impl<'a> TryFrom<ReadRr<'a>> for ReadTsigRr<'a> {
        type Error = FromReadRrError;
        #[verifier::external_body]
        fn try_from(rr: ReadRr<'a>) -> (r: Result<Self, Self::Error>)
            ensures
                rr.rr_type.0 != 250 ==> r == Err::<Self, FromReadRrError>(FromReadRrError::NotTsig),
                rr.rr_type.0 == 250 && (rr.class.0 != 255 || rr.ttl.0 != 0) ==> r == Err::<Self, FromReadRrError>(FromReadRrError::FormErr),
                rr.rr_type.0 == 250 && rr.class.0 == 255 && rr.ttl.0 == 0 ==> r is Ok
                    && (rr.owner.wf() ==> r->Ok_0.wf()
                            && r->Ok_0.key_name_spec().name().wire().len() == rr.owner.wire().len()),
        { unimplemented!() }
    }
    impl<'a> vstd::std_specs::convert::TryFromSpecImpl<ReadRr<'a>> for ReadTsigRr<'a> {
        open spec fn obeys_try_from_spec() -> bool { false }
        open spec fn try_from_spec(v: ReadRr<'a>) -> Result<Self, FromReadRrError> { arbitrary() }
    }

    impl Algorithm {
        #[verifier::external_body]
        pub fn from_name(name: &Name) -> (r: Option<Self>)
            ensures r == alg_of_name(*name), r is Some ==> alg_named(*name, r->Some_0),
        { unimplemented!() }
    }

    /// ASSUMED (see header): facts about the two static algorithm names / output sizes.
    #[verifier::external_body]
    pub proof fn axiom_algorithm_name_ok(a: Algorithm)
        ensures a.name_spec().name().wf(), a.name_spec().name().wire().len() <= 13, a.output_size_spec() <= 32,
    {}

    impl PreparedTsigRr {
        #[verifier::external_body]
        pub fn new_from_read(read: &ReadTsigRr, time_signed: TimeSigned, fudge: u16, error: ExtendedRcode) -> (r: Self)
            requires read.wf(),
            ensures
                r.key_name.name().wf(),
                r.key_name.name().wire() == read.key_name_spec().name().wire(),
                r.fudge == fudge,
                r.error == error,
                error.0 != 18 ==> r.time_signed == time_signed,
                r.server_time == time_signed,
        { unimplemented!() }
    }
}
