// TRUSTED PRELUDE (tsig units): std shims needed by src/rr/rdata/tsig.rs and
// src/message/tsig.rs.  Every item here is an assumption listed in the evidence
// `trusted_base`; each states what the std item does, nothing about the crate.
#[verifier::allow(undeclared_external_trait)]
pub mod vq_t {
    use vstd::prelude::*;
    use crate::spec_tsig::*;

    // ------------------------------------------------------------ big endian
    /// Target of rewrite R2 for `X.to_be_bytes()`: `be_to(X)`; the result is the
    /// network-order form of the value (most significant octet first).
    pub trait BeTo: Sized {
        type Out;
        spec fn be_seq(self) -> Seq<u8>;
        spec fn out_seq(o: Self::Out) -> Seq<u8>;
        fn be_to_impl(self) -> (r: Self::Out)
            ensures Self::out_seq(r) == self.be_seq();
    }
    impl BeTo for u16 {
        type Out = [u8; 2];
        open spec fn be_seq(self) -> Seq<u8> { u16_be(self as int) }
        open spec fn out_seq(o: [u8; 2]) -> Seq<u8> { o@ }
        #[verifier::external_body]
        fn be_to_impl(self) -> (r: [u8; 2]) { self.to_be_bytes() }
    }
    impl BeTo for u64 {
        type Out = [u8; 8];
        open spec fn be_seq(self) -> Seq<u8> { u64_be(self as int) }
        open spec fn out_seq(o: [u8; 8]) -> Seq<u8> { o@ }
        #[verifier::external_body]
        fn be_to_impl(self) -> (r: [u8; 8]) { self.to_be_bytes() }
    }
    pub fn be_to<T: BeTo>(x: T) -> (r: T::Out)
        ensures T::out_seq(r) == x.be_seq()
    { x.be_to_impl() }

    /// R2 shim for u64::from_be_bytes: positional value of the eight octets.
    #[verifier::external_body]
    pub fn be64_from(b: [u8; 8]) -> (r: u64)
        ensures r as int == ((b[0] as int) * 256 + (b[1] as int)) * U48_LIMIT + be48_at(b@, 2)
    { u64::from_be_bytes(b) }

    // ------------------------------------------------------------ Box / Vec / slice / Option
    /// `Box::as_mut`: a mutable borrow of the boxed value.
    pub assume_specification<T: ?Sized, A: std::alloc::Allocator> [<std::boxed::Box<T, A> as core::convert::AsMut<T>>::as_mut] (b: &mut std::boxed::Box<T, A>) -> (r: &mut T)
        ensures &*r == &**old(b), &*final(r) == &**final(b);

    pub assume_specification<T, A: std::alloc::Allocator> [std::vec::Vec::<T, A>::into_boxed_slice] (v: std::vec::Vec<T, A>) -> (r: std::boxed::Box<[T], A>)
        ensures r@ == v@;

    pub assume_specification<T: core::clone::Clone> [<[T]>::to_vec] (s: &[T]) -> (r: std::vec::Vec<T>)
        ensures r@.len() == s@.len(), forall|i: int| 0 <= i < s@.len() ==> cloned(s@[i], #[trigger] r@[i]);

    /// `Option::filter`: keeps a `Some` exactly when the predicate returns true.
    pub assume_specification<T, P> [core::option::Option::<T>::filter] (o: Option<T>, p: P) -> (r: Option<T>)
        where P: core::ops::FnOnce(&T) -> bool + core::marker::Destruct, T: core::marker::Destruct,
        requires o is Some ==> p.requires((&o->Some_0,)),
        ensures
            o is None ==> r is None,
            o is Some ==> (p.ensures((&o->Some_0,), true) && r == o) || (p.ensures((&o->Some_0,), false) && r is None);

    // ------------------------------------------------------------ std::time
    /// std::time::Duration viewed as whole seconds plus a sub-second part.
    #[verifier::external_body]
    pub struct Duration { d: core::time::Duration }
    impl Duration {
        pub uninterp spec fn secs(&self) -> nat;

        #[verifier::external_body]
        pub fn from_secs(secs: u64) -> (r: Duration)
            ensures r.secs() == secs as nat
        { unimplemented!() }

        /// Whole seconds (std stores them in a u64).
        #[verifier::external_body]
        pub fn as_secs(&self) -> (r: u64)
            ensures r as nat == self.secs()
        { unimplemented!() }
    }

    /// std::time::SystemTime, viewed as the whole seconds elapsed since
    /// UNIX_EPOCH (rounded towards minus infinity; negative before the epoch).
    #[verifier::external_body]
    pub struct SystemTime { t: std::time::SystemTime }
    pub struct SystemTimeError;

    impl SystemTime {
        pub uninterp spec fn epoch_secs(&self) -> int;

        /// `SystemTime::UNIX_EPOCH`.
        #[verifier::external_body]
        pub exec const UNIX_EPOCH: SystemTime
            ensures Self::UNIX_EPOCH.epoch_secs() == 0
        { SystemTime { t: std::time::SystemTime::UNIX_EPOCH } }

        /// std: Ok(elapsed) when `earlier` is not later than `self`, else Err.
        /// Stated for `earlier` == the epoch only.
        #[verifier::external_body]
        pub fn duration_since(&self, earlier: SystemTime) -> (r: Result<Duration, SystemTimeError>)
            ensures
                earlier.epoch_secs() == 0 && self.epoch_secs() >= 0 ==> r is Ok && r->Ok_0.secs() == self.epoch_secs(),
                earlier.epoch_secs() == 0 && self.epoch_secs() < 0 ==> r is Err,
        { unimplemented!() }

        /// std: `Some(t)` if `t` can be represented, `None` otherwise - total, never panics.
        #[verifier::external_body]
        pub fn checked_add(&self, duration: Duration) -> (r: Option<SystemTime>)
            ensures r is Some ==> r->Some_0.epoch_secs() == self.epoch_secs() + duration.secs(),
        { unimplemented!() }
    }
}
