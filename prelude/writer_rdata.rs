// TRUSTED PRELUDE (writer units): stand-ins for `crate::rr::rdata::{Rdata,
// Components, ReadRdataError}` and `crate::rr::{RdataSet, rdata_set::Iter}`
// as far as src/message/writer.rs uses them.
//
// `Rdata::components(class, type)` is an iterator that splits RDATA into
// compressible names, uncompressible names and other octets
// (src/rr/rdata/mod.rs:216-436, NOT verified here).  Assumed about it:
//  (A1) the uncompressed lengths of the components yielded so far never exceed
//       the RDATA length, and equal it once the iterator finishes without error
//       (the components partition the RDATA);
//  (A2) every name yielded is a valid `Name`;
//  (A3) RDATA is at most 65,535 octets long (`Rdata` type invariant,
//       src/rr/rdata/mod.rs `TryFrom<&[u8]>`);
//  (A4) the classification table of RFC 3597 section 4 (`compressible_type`):
//       a CompressibleName component is yielded only for the RFC 1035 types
//       NS, MD, MF, CNAME, MB, MG, MR, PTR, SOA, MINFO, MX;
//  (A5) for types without embedded names (`Components::for_nameless`) no item is an error;
//  (A6) and the RDATA is yielded as a single `Other` component (nothing when it is empty).
// Caveat: the real iterator keeps returning the same `Err` after a parse error;
// the stand-in's finite `remaining()` ends with that `Err`.  This is exact for
// consumers that stop at the first `Err` (add_rr does, through `?`).
pub mod rdata_standin_w {
    use vstd::prelude::*;
    use vstd::std_specs::iter::IteratorSpec;
    use crate::name_standin::Name;
    use crate::class::Class;
    use crate::rr::Type;
    use crate::rr::rdata::Component;

    #[verifier::external_body]
    pub struct ReadRdataError { x: u8 }

    #[verifier::external_body]
    pub struct Rdata { x: Vec<u8> }

    pub type CompItem<'a> = Result<Component<'a>, ReadRdataError>;

    /// Uncompressed length of one component.
    pub open spec fn comp_len(c: Component) -> int {
        match c {
            Component::CompressibleName(n) => n.wire().len() as int,
            Component::UncompressibleName(n) => n.wire().len() as int,
            Component::Other(o) => o@.len() as int,
        }
    }

    /// Sum of the uncompressed lengths of the first `k` items (errors count 0).
    pub open spec fn comps_len(items: Seq<CompItem>, k: int) -> int
        decreases k
    {
        if k <= 0 { 0 } else {
            comps_len(items, k - 1) + (match items[k - 1] { Ok(c) => comp_len(c), Err(_) => 0 })
        }
    }

    pub open spec fn all_ok(items: Seq<CompItem>) -> bool {
        forall|k: int| 0 <= k < items.len() ==> (#[trigger] items[k]) is Ok
    }

    /// RFC 3597 section 4: the types whose RDATA names may be compressed.
    pub open spec fn compressible_type(t: u16) -> bool {
        t == 2 || t == 3 || t == 4 || t == 5 || t == 6 || t == 7 || t == 8 || t == 9 || t == 12
            || t == 14 || t == 15
    }

    /// Types whose RDATA embeds no domain name as far as the crate knows
    /// (`_ => Components::for_nameless` in Rdata::components): everything except the
    /// compressible types, Chaosnet A (class 3, type 1) and IN SRV (class 1, type 33).
    pub open spec fn nameless_type(class: u16, t: u16) -> bool {
        !compressible_type(t) && !(t == 1 && class == 3) && !(t == 33 && class == 1)
    }

    /// The assumptions (A1)-(A6) about the component sequence of RDATA of `rdata_len` octets.
    pub open spec fn comps_ok(items: Seq<CompItem>, octets: Seq<u8>, class: u16, rr_type: u16) -> bool {
        let rdata_len = octets.len() as int;
        // (A3)
        &&& rdata_len <= 65535
        // (A1)
        &&& forall|k: int| 0 <= k <= items.len() ==> #[trigger] comps_len(items, k) <= rdata_len
        &&& (all_ok(items) ==> comps_len(items, items.len() as int) == rdata_len)
        // (A2)
        &&& forall|k: int| 0 <= k < items.len() ==> (match #[trigger] items[k] {
                Ok(Component::CompressibleName(n)) => n.wf(),
                Ok(Component::UncompressibleName(n)) => n.wf(),
                _ => true,
            })
        // (A4)
        &&& forall|k: int| 0 <= k < items.len() ==> (match #[trigger] items[k] {
                Ok(Component::CompressibleName(_)) => compressible_type(rr_type),
                _ => true,
            })
        // (A5) RDATA without embedded names never fails to split
        &&& (nameless_type(class, rr_type) ==> all_ok(items))
        // (A6) ... and is a single `Other` component holding all of it (none when empty)
        &&& (nameless_type(class, rr_type) ==> (rdata_len == 0 ==> items.len() == 0)
                && (rdata_len > 0 ==> items.len() == 1 && (match items[0] { Ok(Component::Other(o)) => o@ == octets, _ => false })))
    }

    pub uninterp spec fn comp_items<'a>(octets: Seq<u8>, class: Class, rr_type: Type) -> Seq<CompItem<'a>>;

    /// (A5) as a free-standing axiom, for callers that must know BEFORE calling add_rr that
    /// the RDATA will split (Writer::finish: OPT and TSIG RDATA, both nameless types).
    #[verifier::external_body]
    pub proof fn axiom_nameless_all_ok<'a>(octets: Seq<u8>, class: Class, rr_type: Type)
        requires nameless_type(class.0, rr_type.0),
        ensures all_ok(comp_items::<'a>(octets, class, rr_type)),
    {}

    impl Rdata {
        pub uninterp spec fn octets(&self) -> Seq<u8>;

        #[verifier::external_body]
        pub fn components<'a>(&'a self, class: Class, rr_type: Type) -> (c: Components<'a>)
            ensures
                c.decrease() is Some,
                c.will_return_none(),
                c.remaining() == comp_items::<'a>(self.octets(), class, rr_type),
                // (A1)-(A4)
                comps_ok(c.remaining(), self.octets(), class.0, rr_type.0),
        { unimplemented!() }

        #[verifier::external_body]
        pub fn empty() -> (r: &'static Rdata)
            ensures r.octets() == Seq::<u8>::empty()
        { unimplemented!() }
    }

    #[verifier::external_body]
    pub struct Components<'a> { r: &'a [u8] }

    impl<'a> Iterator for Components<'a> {
        type Item = CompItem<'a>;
        #[verifier::external_body]
        fn next(&mut self) -> (r: Option<CompItem<'a>>)
        { unimplemented!() }
    }

    impl<'a> vstd::std_specs::iter::IteratorSpecImpl for Components<'a> {
        open spec fn obeys_prophetic_iter_laws(&self) -> bool { true }
        #[verifier::prophetic]
        uninterp spec fn remaining(&self) -> Seq<CompItem<'a>>;
        #[verifier::prophetic]
        uninterp spec fn will_return_none(&self) -> bool;
        uninterp spec fn decrease(&self) -> Option<nat>;
        uninterp spec fn peek(&self, i: int) -> Option<CompItem<'a>>;
    }

    // ------------------------------------------------------------ RdataSet
    #[verifier::external_body]
    pub struct RdataSet { x: Vec<u8> }

    impl RdataSet {
        pub uninterp spec fn rdatas(&self) -> Seq<&Rdata>;

        #[verifier::external_body]
        pub fn iter<'a>(&'a self) -> (c: Iter<'a>)
            ensures
                c.decrease() is Some,
                c.will_return_none(),
                c.remaining() == self.rdatas(),
        { unimplemented!() }
    }

    #[verifier::external_body]
    pub struct Iter<'a> { r: &'a [u8] }

    impl<'a> Iterator for Iter<'a> {
        type Item = &'a Rdata;
        #[verifier::external_body]
        fn next(&mut self) -> (r: Option<&'a Rdata>)
        { unimplemented!() }
    }

    impl<'a> vstd::std_specs::iter::IteratorSpecImpl for Iter<'a> {
        open spec fn obeys_prophetic_iter_laws(&self) -> bool { true }
        #[verifier::prophetic]
        uninterp spec fn remaining(&self) -> Seq<&'a Rdata>;
        #[verifier::prophetic]
        uninterp spec fn will_return_none(&self) -> bool;
        uninterp spec fn decrease(&self) -> Option<nat>;
        uninterp spec fn peek(&self, i: int) -> Option<&'a Rdata>;
    }
}
