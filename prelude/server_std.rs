// TRUSTED PRELUDE (server units): std items used by src/server/mod.rs.
// Every item here is an assumption listed in the evidence `trusted_base`.
//
//  * `RwLock<T>` / `RwLockReadGuard` (std::sync): `read()` returns a guard whose
//    referent is SOME value that was stored in the lock; poisoning is ignored
//    (the `LockResult` is always Ok, as in prelude/thread_sync.rs).  What is
//    known about the stored values is a LOCK INVARIANT `holds(v)`; the Server
//    invariant (`Server::wf`) says what it implies (`Catalog::cwf`).  Every
//    writer of the lock (`Server::new`, `set_catalog`, `set_tsig_keys` - not
//    under contract here) has to establish it; for `cwf` that is the catalog
//    implementation's own invariant, established by its constructors (unit catalog).
//  * `Arc<T>`: `clone` yields a pointer to the same value, `as_ref` the referent.
//  * `SystemTime::now()`: an ARBITRARY time that is representable in the 48-bit
//    TSIG "time signed" field, i.e. 0 <= seconds since the epoch < 2^48
//    (ASSUMPTION on the system clock: it is set between 1970 and the year
//    8,921,556).  `TimeSigned::try_from(SystemTime)` (src/rr/rdata/tsig.rs) is Ok
//    exactly for such times; the server's `.expect(..)` on it is discharged from
//    the clock assumption, not from the code.
//  * `IpAddr`: opaque.
//  * `TsigKeyMap = HashMap<Box<Name>, (Algorithm, Box<[u8]>)>`: a partial function of
//    the key name (`Name`'s Eq/Hash coherence is C16's obligation).
#[verifier::allow(undeclared_external_trait)]
pub mod server_std {
    use vstd::prelude::*;
    use crate::name_standin::Name;
    use crate::message::tsig::Algorithm;
    use crate::rr::rdata::TimeSigned;
    pub use std::sync::Arc;

    // ------------------------------------------------------------ RwLock
    #[verifier::external_body]
    #[verifier::accept_recursive_types(T)]
    pub struct RwLock<T> { t: core::marker::PhantomData<T> }

    #[verifier::external_body]
    #[verifier::accept_recursive_types(T)]
    pub struct RwLockReadGuard<'a, T> { t: core::marker::PhantomData<&'a T> }

    /// std::sync::LockResult with poisoning ignored: `unwrap()` always succeeds.
    #[verifier::external_body]
    #[verifier::accept_recursive_types(T)]
    pub struct LockResult<T> { t: core::marker::PhantomData<T> }

    impl<T> LockResult<T> {
        pub uninterp spec fn get(&self) -> T;
        #[verifier::external_body]
        pub fn unwrap(self) -> (r: T)
            ensures r == self.get()
        { unimplemented!() }
    }

    impl<T> RwLock<T> {
        /// Lock invariant: true of every value ever stored in the lock.
        pub uninterp spec fn holds(&self, v: T) -> bool;

        /// `RwLock::new`: no postcondition (the lock invariant `holds` is chosen by the owner of the
        /// lock, see `Server::wf`; nothing about it is assumed here).
        #[verifier::external_body]
        pub fn new(v: T) -> (r: RwLock<T>)
        { unimplemented!() }

        #[verifier::external_body]
        pub fn read(&self) -> (r: LockResult<RwLockReadGuard<'_, T>>)
            ensures self.holds(r.get().val())
        { unimplemented!() }
    }

    impl<'a, T> RwLockReadGuard<'a, T> {
        pub uninterp spec fn val(&self) -> T;
    }

    impl<'a, T> core::ops::Deref for RwLockReadGuard<'a, T> {
        type Target = T;
        #[verifier::external_body]
        fn deref(&self) -> (r: &T)
            ensures *r == self.val()
        { unimplemented!() }
    }

    // ------------------------------------------------------------ Arc
    pub assume_specification<T: ?Sized, A: std::alloc::Allocator + core::clone::Clone> [<std::sync::Arc<T, A> as core::clone::Clone>::clone] (a: &std::sync::Arc<T, A>) -> (r: std::sync::Arc<T, A>)
        ensures r == *a;

    pub assume_specification<T: ?Sized, A: std::alloc::Allocator> [<std::sync::Arc<T, A> as core::convert::AsRef<T>>::as_ref] (a: &std::sync::Arc<T, A>) -> (r: &T)
        ensures r == &**a;

    // ------------------------------------------------------------ time
    /// std::time::SystemTime, viewed as whole seconds since UNIX_EPOCH.
    #[verifier::external_body]
    pub struct SystemTime { t: std::time::SystemTime }

    pub open spec fn u48_limit() -> int { 0x1_0000_0000_0000 }

    impl SystemTime {
        pub uninterp spec fn epoch_secs(&self) -> int;

        /// ASSUMPTION on the system clock (see the header of this file).
        #[verifier::external_body]
        pub fn now() -> (r: SystemTime)
            ensures 0 <= r.epoch_secs() < u48_limit()
        { unimplemented!() }
    }

    #[derive(Debug)]
    pub struct TimeSignedFromSystemTimeError;

    /// src/rr/rdata/tsig.rs `impl TryFrom<SystemTime> for TimeSigned`: the seconds since
    /// the epoch as a 48-bit big-endian integer; fails for times before the epoch or
    /// not below 2^48 (its body is under contract in unit tsig_rdata).
    impl TryFrom<SystemTime> for TimeSigned {
        type Error = TimeSignedFromSystemTimeError;
        #[verifier::external_body]
        fn try_from(t: SystemTime) -> (r: Result<Self, Self::Error>)
            ensures (0 <= t.epoch_secs() < u48_limit()) == (r is Ok),
        { unimplemented!() }
    }
    impl vstd::std_specs::convert::TryFromSpecImpl<SystemTime> for TimeSigned {
        open spec fn obeys_try_from_spec() -> bool { false }
        open spec fn try_from_spec(v: SystemTime) -> Result<Self, TimeSignedFromSystemTimeError> { arbitrary() }
    }

    // ------------------------------------------------------------ net
    #[verifier::external_body]
    #[derive(Clone, Copy, Debug)]
    pub struct IpAddr { a: u8 }

    // ------------------------------------------------------------ key table
    #[verifier::external_body]
    pub struct TsigKeyMap { x: std::collections::HashMap<Box<Name>, (Algorithm, Box<[u8]>)> }

    impl TsigKeyMap {
        /// `HashMap::new`: the empty table.
        #[verifier::external_body]
        pub fn new() -> (r: TsigKeyMap)
            ensures forall|k: Name| #[trigger] r.entry_for(k) is None
        { unimplemented!() }

        /// The entry filed under a name equal (`Name::eq`, ASCII-case-insensitive) to `k`.
        pub uninterp spec fn entry_for(&self, k: Name) -> Option<&(Algorithm, Box<[u8]>)>;

        /// `HashMap::get` with `Box<Name>: Borrow<Name>`.
        #[verifier::external_body]
        pub fn get(&self, k: &Name) -> (r: Option<&(Algorithm, Box<[u8]>)>)
            ensures r == self.entry_for(*k)
        { unimplemented!() }
    }

    /// `Option::filter`: keeps a `Some` exactly when the predicate returns true.
    pub assume_specification<T, P> [core::option::Option::<T>::filter] (o: Option<T>, p: P) -> (r: Option<T>)
        where P: core::ops::FnOnce(&T) -> bool + core::marker::Destruct, T: core::marker::Destruct,
        requires o is Some ==> p.requires((&o->Some_0,)),
        ensures
            o is None ==> r is None,
            o is Some ==> (p.ensures((&o->Some_0,), true) && r == o) || (p.ensures((&o->Some_0,), false) && r is None);

    /// std `impl From<&[T]> for Box<[T]>`: a boxed copy of the slice.
    pub assume_specification<'a, T: core::clone::Clone> [<Box<[T]> as core::convert::From<&'a [T]>>::from] (s: &[T]) -> (r: Box<[T]>)
        ensures r@.len() == s@.len(), forall|i: int| 0 <= i < s@.len() ==> cloned(s@[i], #[trigger] r@[i]);
}
