// TRUSTED PRELUDE (unit zone_file_records, C24): what src/zone_file/{mod,record,name,directive}.rs
// see of the rest of the crate and of std.
//
// * `zone_file::reader::Reader<S>` -- the 930-line streaming tokenizer over `io::Read`
//   (src/zone_file/reader.rs).  NOT verified.  Stand-in: an opaque value whose public
//   operations return ARBITRARY results (no ensures at all): whatever tokens, values, errors
//   or end-of-file the tokenizer reports, the parser code on top of it must yield only valid
//   records.  `read_field::<T, _>` returns an arbitrary `T` (the `FromStr` text parsers of
//   u8/u16/u32/Class/Type/Ipv4Addr/Ipv6Addr are behind it).
// * `std::io::Error`, `Utf8Error`, `ParseIntError`, `AddrParseError`: opaque payload types
//   (`Ipv4Addr`/`Ipv6Addr` are std's, declared opaque in prelude/rdata_ser_std.rs).
// * `Name` (prelude/name.rs: wire form + invariant `wf()` = valid absolute name): `root`,
//   `ToOwned`; `NameBuilder` with the result part of its C16 contract (`finish*` returns a
//   well-formed name); `From<Box<T>> for Rc<T>` keeps the value.
// * `CharacterString` and the text-level parsers `parse_character_string`, `parse_escape`,
//   `parse_include_path` are declared in the unit template as assumed callees (frame only).
#[verifier::allow(undeclared_external_trait)]
pub mod zfenv {
    use vstd::prelude::*;
    use std::rc::Rc;
    use crate::name_standin::Name;
    use crate::name;
    use crate::class::Class;
    use crate::rr::Type;
    use crate::zone_file::error::{ErrorKind, Result};
    use crate::zone_file::reader::{FieldOrEol, Position};

    // ------------------------------------------------------------------ std payload types

    pub mod io {
        use vstd::prelude::*;
        /// Stand-in for `std::io::Error`.
        #[verifier::external_body]
        pub struct Error { e: std::io::Error }
        pub type Result<T> = core::result::Result<T, Error>;
    }

    #[verifier::external_body]
    pub struct Utf8Error { e: u8 }
    #[verifier::external_body]
    pub struct ParseIntError { e: u8 }
    #[verifier::external_body]
    pub struct AddrParseError { e: u8 }
    use std::net::{Ipv4Addr, Ipv6Addr};   // opaque std types, declared in prelude/rdata_ser_std.rs

    /// Stand-in for `std::str::FromStr` restricted to its associated error type (the text
    /// parsers themselves sit behind `Reader::read_field`).
    pub trait FromStrV { type Err; }
    impl FromStrV for u8 { type Err = ParseIntError; }
    impl FromStrV for u16 { type Err = ParseIntError; }
    impl FromStrV for u32 { type Err = ParseIntError; }
    impl FromStrV for Class { type Err = &'static str; }
    impl FromStrV for Type { type Err = &'static str; }
    impl FromStrV for Ipv4Addr { type Err = AddrParseError; }
    impl FromStrV for Ipv6Addr { type Err = AddrParseError; }

    // ------------------------------------------------------------------ Reader

    /// Stand-in for `zone_file::reader::Reader<S>`: every operation may return anything.
    #[verifier::external_body]
    #[verifier::accept_recursive_types(S)]
    pub struct Reader<S> { s: S }

    impl<S> Reader<S> {
        #[verifier::external_body]
        pub fn new(stream: S) -> Self { unimplemented!() }
        #[verifier::external_body]
        pub fn position(&self) -> Position { unimplemented!() }
        #[verifier::external_body]
        pub fn at_eof(&mut self) -> io::Result<bool> { unimplemented!() }
        #[verifier::external_body]
        pub fn peek_octet(&mut self) -> io::Result<Option<u8>> { unimplemented!() }
        #[verifier::external_body]
        pub fn read_octet(&mut self) -> io::Result<Option<u8>> { unimplemented!() }
        #[verifier::external_body]
        pub fn read(&mut self, into: &mut [u8]) -> (r: io::Result<bool>)
            ensures final(into)@.len() == old(into)@.len(),
        { unimplemented!() }
        #[verifier::external_body]
        pub fn expect_field(&mut self, field: &[u8]) -> io::Result<bool> { unimplemented!() }
        #[verifier::external_body]
        pub fn expect_field_case_insensitive(&mut self, field: &[u8]) -> io::Result<bool> { unimplemented!() }
        /// `or_else` is only called on a text-parse failure; it must be callable.
        #[verifier::external_body]
        pub fn read_field<T: FromStrV, F: FnOnce(T::Err) -> ErrorKind>(&mut self, or_else: F) -> Result<T>
            requires forall|e: T::Err| or_else.requires((e,)),
        { unimplemented!() }
        #[verifier::external_body]
        pub fn read_field_octet(&mut self) -> io::Result<Option<u8>> { unimplemented!() }
        #[verifier::external_body]
        pub fn skip_whitespace(&mut self) -> io::Result<bool> { unimplemented!() }
        #[verifier::external_body]
        pub fn skip_to_next_field_or_through_eol(&mut self) -> Result<FieldOrEol> { unimplemented!() }
        #[verifier::external_body]
        pub fn skip_to_next_field(&mut self, error_on_eol: ErrorKind) -> Result<()> { unimplemented!() }
        #[verifier::external_body]
        pub fn expect_eol(&mut self) -> Result<()> { unimplemented!() }
    }

    // ------------------------------------------------------------------ Name / NameBuilder / Rc

    impl Name {
        /// `Name::root()`: the root name `.` (a valid name).
        #[verifier::external_body]
        pub fn root() -> (r: &'static Name)
            ensures r.wf(),
        { unimplemented!() }
    }

    /// `ToOwned for Name`: a boxed copy.
    impl ToOwned for Name {
        type Owned = Box<Name>;
        #[verifier::external_body]
        fn to_owned(&self) -> (r: Box<Name>)
            ensures r.wire() == self.wire(), r.offsets() == self.offsets(),
        { unimplemented!() }
    }

    /// Stand-in for `name::NameBuilder`; of its contract (property C16, unit name_builder)
    /// only "a successful finish returns a well-formed (valid, absolute) name" is used.
    #[verifier::external_body]
    pub struct NameBuilder { b: Vec<u8> }

    impl NameBuilder {
        #[verifier::external_body]
        pub fn new() -> Self { unimplemented!() }
        #[verifier::external_body]
        pub fn try_push(&mut self, octet: u8) -> core::result::Result<(), name::Error> { unimplemented!() }
        #[verifier::external_body]
        pub fn next_label(&mut self) -> core::result::Result<(), name::Error> { unimplemented!() }
        #[verifier::external_body]
        pub fn is_fully_qualified(&self) -> bool { unimplemented!() }
        #[verifier::external_body]
        pub fn finish(self) -> (r: core::result::Result<Box<Name>, name::Error>)
            ensures r is Ok ==> r->Ok_0.wf(),
        { unimplemented!() }
        #[verifier::external_body]
        pub fn finish_with_suffix(self, suffix: &Name) -> (r: core::result::Result<Box<Name>, name::Error>)
            ensures suffix.wf() && r is Ok ==> r->Ok_0.wf(),
        { unimplemented!() }
    }

    /// `From<Box<T>> for Rc<T>` moves the value into a reference-counted allocation.
    pub uninterp spec fn rc_same<T: ?Sized, A: core::alloc::Allocator>(r: Rc<T, A>, v: Box<T, A>) -> bool;

    pub assume_specification<T: ?Sized, A: core::alloc::Allocator> [<Rc<T, A> as From<Box<T, A>>>::from] (v: Box<T, A>) -> (r: Rc<T, A>)
        ensures rc_same(r, v);

    /// ... so the `Name` behind the `Rc` is the `Name` that was in the `Box`.
    #[verifier::external_body]
    pub broadcast proof fn axiom_rc_same_name(r: Rc<Name>, v: Box<Name>)
        requires #[trigger] rc_same(r, v),
        ensures r.wire() == v.wire(), r.offsets() == v.offsets(),
    {}

    /// `Option<Rc<Name>>::clone` is specified by vstd through `cloned` (= the postcondition of
    /// `<Rc<Name> as Clone>::clone`); `Rc::clone` returns a pointer to the same allocation.
    #[verifier::external_body]
    pub broadcast proof fn axiom_cloned_rc_name(a: Rc<Name>, b: Rc<Name>)
        requires #[trigger] vstd::pervasive::cloned::<Rc<Name>>(a, b),
        ensures a == b,
    {}

    // ------------------------------------------------------------------ std shims

    pub assume_specification<T> [core::option::Option::<T>::or] (a: Option<T>, b: Option<T>) -> (r: Option<T>)
        where T: core::marker::Destruct,
        ensures a is Some ==> r == a, a is None ==> r == b;

    pub assume_specification<T: ?Sized, A: core::alloc::Allocator> [<Box<T, A> as AsRef<T>>::as_ref] (b: &Box<T, A>) -> (r: &T)
        ensures r == &**b;

    /// `<[T]>::to_vec`: only "as many elements as the slice" is needed (and assumed).
    pub assume_specification<T: Clone> [<[T]>::to_vec] (s: &[T]) -> (r: Vec<T>)
        ensures r@.len() == s@.len();

    pub assume_specification [u8::is_ascii_digit] (x: &u8) -> (r: bool)
        ensures r == (48 <= *x && *x <= 57);

    /// Target of rewrite ZF6 (verified, not assumed): `s.iter().all(u8::is_ascii_digit)`.
    pub fn vq_all_ascii_digits(s: &[u8]) -> (r: bool)
        ensures r == (forall|i: int| 0 <= i < s@.len() ==> 48 <= #[trigger] s@[i] && s@[i] <= 57),
    {
        let mut i: usize = 0;
        while i < s.len()
            invariant i <= s@.len(), forall|j: int| 0 <= j < i ==> 48 <= #[trigger] s@[j] && s@[j] <= 57,
            decreases s@.len() - i,
        {
            if !s[i].is_ascii_digit() { return false; }
            i = i + 1;
        }
        true
    }

    /// `TryFrom<Vec<u8>> for Box<CharacterString>` (src/rr/rdata/std13.rs: length test, then an
    /// `unsafe` repr(transparent) cast): fails exactly when longer than 255 octets, else the same octets.
    impl TryFrom<Vec<u8>> for Box<crate::rr::rdata::CharacterString> {
        type Error = crate::rr::rdata::CharacterStringTooLongError;
        #[verifier::external_body]
        fn try_from(vec: Vec<u8>) -> (r: core::result::Result<Self, Self::Error>)
            ensures
                vec@.len() <= 255 ==> r is Ok && r->Ok_0.octets@ == vec@,
                vec@.len() > 255 ==> r is Err,
        { unimplemented!() }
    }
    impl vstd::std_specs::convert::TryFromSpecImpl<Vec<u8>> for Box<crate::rr::rdata::CharacterString> {
        open spec fn obeys_try_from_spec() -> bool { false }
        open spec fn try_from_spec(v: Vec<u8>) -> core::result::Result<Self, crate::rr::rdata::CharacterStringTooLongError> { arbitrary() }
    }

    /// Target of rewrite ZF4 (verified, not assumed): Result::map with the second projection.
    pub fn vq_map_second<A, B, E>(r: core::result::Result<(A, B), E>) -> (o: core::result::Result<B, E>)
        ensures
            r is Ok ==> o is Ok && o->Ok_0 == r->Ok_0.1,
            r is Err ==> o is Err && o->Err_0 == r->Err_0,
    {
        match r { Ok(p) => Ok(p.1), Err(e) => Err(e) }
    }
}
