// TRUSTED PRELUDE (zones_reload): stand-ins for the std / anyhow / library items that
// src/bin/quandaryd/zones.rs (property C31) uses.  Every item here is an assumption listed in
// the evidence.
//
// MODELLING ASSUMPTION (file-system quiescence): during ONE run of load_impl the file system does
// not change, so the outcome of `fs::metadata(p).and_then(|m| m.modified())` is a function of the
// path (`fs_metadata_spec`, `modified_spec`) and the outcome of `load_and_validate_zone(zc)` is a
// function of the zone configuration (`load_outcome`, declared in the unit).  The functions are
// uninterpreted: the proof holds for every possible outcome.
pub mod zr_std {
    use vstd::prelude::*;

    /// Target of rewrite RT2: `format!(..)` yields some String (log text only).
    #[verifier::external_body]
    pub fn vq_any_string() -> String { unimplemented!() }

    /// std: `Result::and_then(f)` = `match self { Ok(t) => f(t), Err(e) => Err(e) }`.
    #[verifier::allow(undeclared_external_trait)]
    pub assume_specification<T, E, U, F: FnOnce(T) -> core::result::Result<U, E>> [core::result::Result::<T, E>::and_then] (a: core::result::Result<T, E>, f: F) -> (r: core::result::Result<U, E>)
        where F: core::marker::Destruct,
        requires a is Ok ==> f.requires((a->Ok_0,)),
        ensures
            a is Ok ==> f.ensures((a->Ok_0,), r),
            a is Err ==> r == Err::<U, E>(a->Err_0);

    // ---- std::path::PathBuf ------------------------------------------------------------
    #[verifier::external_body]
    pub struct PathBuf { }
    impl Clone for PathBuf {
        #[verifier::external_body]
        fn clone(&self) -> (r: Self) ensures r == *self { unimplemented!() }
    }
    /// `==` on paths: the result is left unconstrained (it only feeds the unchanged-file shortcut,
    /// whose criterion is not part of the contract).
    impl PartialEq for PathBuf {
        #[verifier::external_body]
        fn eq(&self, other: &Self) -> bool { unimplemented!() }
    }
    impl vstd::std_specs::cmp::PartialEqSpecImpl for PathBuf {
        open spec fn obeys_eq_spec() -> bool { false }
        open spec fn eq_spec(&self, other: &Self) -> bool { true }
    }

    // ---- std::time::SystemTime ---------------------------------------------------------
    #[verifier::external_body]
    pub struct SystemTime { }
    impl Copy for SystemTime {}
    impl Clone for SystemTime {
        #[verifier::external_body]
        fn clone(&self) -> (r: Self) ensures r == *self { unimplemented!() }
    }
    impl PartialEq for SystemTime {
        #[verifier::external_body]
        fn eq(&self, other: &Self) -> bool { unimplemented!() }
    }
    impl vstd::std_specs::cmp::PartialEqSpecImpl for SystemTime {
        open spec fn obeys_eq_spec() -> bool { false }
        open spec fn eq_spec(&self, other: &Self) -> bool { true }
    }
    /// `<=` on times: result unconstrained (see PathBuf::eq).
    impl PartialOrd for SystemTime {
        #[verifier::external_body]
        fn partial_cmp(&self, other: &Self) -> Option<core::cmp::Ordering> { unimplemented!() }
    }
    impl vstd::std_specs::cmp::PartialOrdSpecImpl for SystemTime {
        open spec fn obeys_partial_cmp_spec() -> bool { false }
        open spec fn partial_cmp_spec(&self, other: &Self) -> Option<core::cmp::Ordering> { None }
    }

    // ---- std::io ------------------------------------------------------------------------
    pub mod io {
        use vstd::prelude::*;
        #[derive(PartialEq, Eq, Clone, Copy)]
        pub enum ErrorKind { NotFound, PermissionDenied, Unsupported, Other }
        unsafe impl Structural for ErrorKind {}

        #[verifier::external_body]
        pub struct Error { }
        impl Error {
            pub uninterp spec fn kind_spec(&self) -> ErrorKind;
            #[verifier::external_body]
            #[verifier::when_used_as_spec(kind_spec)]
            pub fn kind(&self) -> (r: ErrorKind) ensures r == self.kind_spec() { unimplemented!() }
        }
        pub type Result<T> = core::result::Result<T, Error>;
    }

    // ---- std::fs ------------------------------------------------------------------------
    pub mod fs {
        use vstd::prelude::*;
        use super::{io, PathBuf, SystemTime};

        #[verifier::external_body]
        pub struct Metadata { }
        impl Metadata {
            pub uninterp spec fn modified_spec(&self) -> io::Result<SystemTime>;
            #[verifier::external_body]
            #[verifier::when_used_as_spec(modified_spec)]
            pub fn modified(&self) -> (r: io::Result<SystemTime>) ensures r == self.modified_spec() { unimplemented!() }
        }

        /// ORACLE: what `fs::metadata(path)` returns during this run.
        pub uninterp spec fn fs_metadata_spec(path: PathBuf) -> io::Result<Metadata>;

        #[verifier::external_body]
        pub fn metadata(path: &PathBuf) -> (r: io::Result<Metadata>)
            ensures r == fs_metadata_spec(*path)
        { unimplemented!() }

        /// The modification time the run observes for `path`:
        /// `fs::metadata(path).and_then(|m| m.modified())`.
        pub open spec fn fs_mtime(path: PathBuf) -> io::Result<SystemTime> {
            match fs_metadata_spec(path) {
                Ok(m) => m.modified_spec(),
                Err(e) => Err(e),
            }
        }
    }

    // ---- anyhow -------------------------------------------------------------------------
    pub mod anyhow {
        use vstd::prelude::*;
        #[verifier::external_body]
        pub struct Error { }
        pub type Result<T> = core::result::Result<T, Error>;
    }
}
