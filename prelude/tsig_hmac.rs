// TRUSTED PRELUDE (unit tsig): the third-party keyed-hash objects that
// src/message/tsig.rs drives - `hmac::Hmac<sha1::Sha1>`, `hmac::Hmac<sha2::Sha256>`
// through `digest::Mac` (digest 0.10.6, hmac 0.12.1).
//
// CRYPTOGRAPHIC ASSUMPTIONS (never proved here; listed in the evidence):
//  A1  `hmac(h, key, data)` is an UNINTERPRETED function: a MAC object is
//      deterministic and its tag depends only on the hash, the key it was created
//      with and the concatenation of the octets fed to it through `update`
//      (`m_fed` grows by exactly the octets of every update; RFC 2104).
//  A2  the tag is as long as the hash output: 20 octets for SHA-1, 32 for SHA-256
//      (FIPS 180-4; RFC 8945 section 6 table) - `axiom_hmac_len`, `output_size`.
//  A3  `Mac::finalize(m).into_bytes()` returns that tag.
//  A4  `Mac::verify_truncated_left(m, tag)` is Ok exactly when 1 <= |tag| <= output
//      size and `tag` equals the first |tag| octets of the tag (digest 0.10.6
//      src/mac.rs:198-210; constant-time comparison).
//  A5  `Mac::new_from_slice` accepts a key of any length (HMAC keys are hashed or
//      zero-padded to the block size; hmac 0.12 never returns InvalidLength).
// NOT assumed here and therefore not provable in this framework: unforgeability /
// collision resistance ("a different input gives a different tag").  The
// tamper-detection clause of C11 is reduced to "a changed covered octet changes
// the digest input" (specs/tsig.rs lemma_tamper_changes_input).
#[verifier::allow(undeclared_external_trait)]
pub mod tsig_hmac {
    use vstd::prelude::*;

    /// The hash functions of the two supported algorithms.
    pub enum HashId { Sha1, Sha256 }

    /// Output length in octets (A2).
    pub open spec fn hash_len(h: HashId) -> int {
        match h { HashId::Sha1 => 20, HashId::Sha256 => 32 }
    }

    /// A1: the HMAC tag, uninterpreted.
    pub uninterp spec fn hmac(h: HashId, key: Seq<u8>, data: Seq<u8>) -> Seq<u8>;

    /// A2.
    #[verifier::external_body]
    pub proof fn axiom_hmac_len(h: HashId, key: Seq<u8>, data: Seq<u8>)
        ensures hmac(h, key, data).len() == hash_len(h),
    {}

    /// `digest::MacError`.
    pub struct MacError;
    /// `digest::InvalidLength`.
    #[derive(Debug)]
    pub struct InvalidLength;

    /// `digest::CtOutput<M>`: the finished tag.
    #[verifier::external_body]
    #[verifier::reject_recursive_types(M)]
    pub struct CtOutput<M> { x: core::marker::PhantomData<M> }
    impl<M> CtOutput<M> {
        pub uninterp spec fn bytes(&self) -> Seq<u8>;
        /// Really a `GenericArray<u8, OutputSize>`, used only through `.to_vec()`.
        #[verifier::external_body]
        pub fn into_bytes(self) -> (r: Vec<u8>)
            ensures r@ == self.bytes()
        { unimplemented!() }
    }

    /// `digest::Mac` (the part the crate uses), with the ghost state of A1.
    pub trait Mac: Sized {
        spec fn m_hash() -> HashId;
        spec fn m_key(&self) -> Seq<u8>;
        spec fn m_fed(&self) -> Seq<u8>;

        /// A5.
        fn new_from_slice(key: &[u8]) -> (r: Result<Self, InvalidLength>)
            ensures r is Ok, r->Ok_0.m_key() == key@, r->Ok_0.m_fed() == Seq::<u8>::empty();

        /// A1.
        fn update(&mut self, data: &[u8])
            ensures final(self).m_fed() == old(self).m_fed() + data@, final(self).m_key() == old(self).m_key();

        /// A3.
        fn finalize(self) -> (r: CtOutput<Self>)
            ensures r.bytes() == hmac(Self::m_hash(), self.m_key(), self.m_fed());

        /// A4.
        fn verify_truncated_left(self, tag: &[u8]) -> (r: Result<(), MacError>)
            ensures r is Ok <==> (
                1 <= tag@.len() <= hash_len(Self::m_hash())
                && tag@ == hmac(Self::m_hash(), self.m_key(), self.m_fed()).subrange(0, tag@.len() as int));
    }

    pub struct Sha1;
    pub struct Sha256;

    /// `hmac::Hmac<D>`.
    #[verifier::external_body]
    #[verifier::reject_recursive_types(D)]
    pub struct Hmac<D> { x: core::marker::PhantomData<D> }

    impl Mac for Hmac<Sha1> {
        open spec fn m_hash() -> HashId { HashId::Sha1 }
        uninterp spec fn m_key(&self) -> Seq<u8>;
        uninterp spec fn m_fed(&self) -> Seq<u8>;
        #[verifier::external_body]
        fn new_from_slice(key: &[u8]) -> (r: Result<Self, InvalidLength>) { unimplemented!() }
        #[verifier::external_body]
        fn update(&mut self, data: &[u8]) { unimplemented!() }
        #[verifier::external_body]
        fn finalize(self) -> (r: CtOutput<Self>) { unimplemented!() }
        #[verifier::external_body]
        fn verify_truncated_left(self, tag: &[u8]) -> (r: Result<(), MacError>) { unimplemented!() }
    }
    impl Mac for Hmac<Sha256> {
        open spec fn m_hash() -> HashId { HashId::Sha256 }
        uninterp spec fn m_key(&self) -> Seq<u8>;
        uninterp spec fn m_fed(&self) -> Seq<u8>;
        #[verifier::external_body]
        fn new_from_slice(key: &[u8]) -> (r: Result<Self, InvalidLength>) { unimplemented!() }
        #[verifier::external_body]
        fn update(&mut self, data: &[u8]) { unimplemented!() }
        #[verifier::external_body]
        fn finalize(self) -> (r: CtOutput<Self>) { unimplemented!() }
        #[verifier::external_body]
        fn verify_truncated_left(self, tag: &[u8]) -> (r: Result<(), MacError>) { unimplemented!() }
    }

    /// `<Hmac<Sha1> as OutputSizeUser>::output_size()` (A2).
    impl Hmac<Sha1> {
        #[verifier::external_body]
        pub fn output_size() -> (r: usize) ensures r == 20 { unimplemented!() }
    }
    /// `<Hmac<Sha256> as OutputSizeUser>::output_size()` (A2).
    impl Hmac<Sha256> {
        #[verifier::external_body]
        pub fn output_size() -> (r: usize) ensures r == 32 { unimplemented!() }
    }
}
