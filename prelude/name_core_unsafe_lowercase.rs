// TRUSTED PRELUDE (unit name_core, C16): targets of rewrite NC7 - the pointer casts
// `Box::from_raw(Box::into_raw(b) as *mut T)` between `Box<Name>` and `Box<LowercaseName>`
// in src/name/lowercase.rs (`LowercaseName` is `#[repr(transparent)]` over `Name`).
// Contract: the same value (both fields), re-typed.
#[verifier::external_body]
pub fn vq_box_name_as_lowercase(b: Box<Name>) -> (r: Box<LowercaseName>)
    ensures r.0.n_labels == b.n_labels, r.0.data@ == b.data@,
{ unimplemented!() }

#[verifier::external_body]
pub fn vq_box_lowercase_as_name(b: Box<LowercaseName>) -> (r: Box<Name>)
    ensures r.n_labels == b.0.n_labels, r.data@ == b.0.data@,
{ unimplemented!() }
