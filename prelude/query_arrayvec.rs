// TRUSTED PRELUDE (query units): stand-in for arrayvec 0.7 `ArrayVec<T, CAP>` (view Seq<T>).
// Same contracts as prelude/arrayvec.rs (which is restricted to `T: Copy` and therefore cannot
// hold the `Box<Name>` elements of `server::query::PreviousOwners`); used INSTEAD of it in the
// query units.  `push` past capacity panics in the real crate, hence `requires len < CAP`.
// Added for src/server/query.rs: `last` and `contains`, which the real code reaches through
// `Deref<Target = [T]>` (`<[T]>::last`, `<[T]>::contains`); `contains` is stated for the one
// element type it is used with (`Box<Name>`, compared by `Name`'s PartialEq).
pub mod arrayvec {
    use vstd::prelude::*;
    use crate::name_standin::Name;
    use crate::name_standin_q::name_eq;

    pub struct CapacityError;

    #[verifier::external_body]
    #[verifier::reject_recursive_types(T)]
    pub struct ArrayVec<T, const CAP: usize> { v: Vec<T> }

    impl<T, const CAP: usize> View for ArrayVec<T, CAP> {
        type V = Seq<T>;
        uninterp spec fn view(&self) -> Seq<T>;
    }

    impl<T, const CAP: usize> ArrayVec<T, CAP> {
        #[verifier::external_body]
        pub fn new() -> (r: Self)
            ensures r@ == Seq::<T>::empty()
        { unimplemented!() }

        #[verifier::external_body]
        pub fn len(&self) -> (r: usize)
            ensures r == self@.len(), r <= CAP
        { unimplemented!() }

        #[verifier::external_body]
        pub fn is_full(&self) -> (r: bool)
            ensures r == (self@.len() == CAP), self@.len() <= CAP
        { unimplemented!() }

        #[verifier::external_body]
        pub fn push(&mut self, x: T)
            requires old(self)@.len() < CAP
            ensures final(self)@ == old(self)@.push(x)
        { unimplemented!() }

        /// arrayvec: "Push element to the end of the vector. Return Ok if the push succeeds, or
        /// return an error if the vector is already full."
        #[verifier::external_body]
        pub fn try_push(&mut self, x: T) -> (r: Result<(), CapacityError>)
            ensures
                old(self)@.len() < CAP ==> r is Ok && final(self)@ == old(self)@.push(x),
                old(self)@.len() >= CAP ==> r is Err && final(self)@ == old(self)@,
        { unimplemented!() }

        /// `<[T]>::last` through `Deref`.
        #[verifier::external_body]
        pub fn last(&self) -> (r: Option<&T>)
            ensures
                self@.len() == 0 ==> r is None,
                self@.len() > 0 ==> r is Some && *r->Some_0 == self@.last(),
        { unimplemented!() }
    }

    impl<const CAP: usize> ArrayVec<Box<Name>, CAP> {
        /// `<[Box<Name>]>::contains` through `Deref`: some element is `==` to `x`
        /// (`PartialEq for Box<Name>` is `PartialEq for Name`).
        #[verifier::external_body]
        pub fn contains(&self, x: &Box<Name>) -> (r: bool)
            ensures r == (exists|i: int| 0 <= i < self@.len() && name_eq(*#[trigger] self@[i], **x)),
        { unimplemented!() }
    }
}
