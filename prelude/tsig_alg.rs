// TRUSTED PRELUDE (unit tsig): the two functions of `message::tsig::Algorithm`
// that go through `lazy_static!` tables (src/message/tsig.rs:69-76, 95-100,
// 115-117) and `std::borrow::Cow<'a, Rdata>`.
//   * `Algorithm::name` returns the statics HMAC_SHA1_NAME / HMAC_SHA256_NAME,
//     i.e. `"hmac-sha1.".parse::<Box<LowercaseName>>().unwrap()` etc.: the names
//     RFC 8945 section 6 assigns, in lower case, as well-formed `Name`s.
//   * `Algorithm::from_name` is `ALGORITHMS_BY_NAME.get(name).copied()`, a
//     `HashMap<&Name, Algorithm>` keyed by those two names under `Name`'s
//     case-insensitive Eq/Hash: Some(a) exactly when `name` equals `a.name()` up
//     to ASCII case.
// Neither can be extracted (lazy_static expands to hidden types; HashMap lookup
// needs Hash/Eq coherence of `Name`), so their bodies are NOT verified.
pub mod tsig_alg {
    use vstd::prelude::*;
    use crate::spec_tsig::*;
    use crate::name_standin::Name;
    use crate::name_standin_t::LowercaseName;
    use crate::message::tsig::Algorithm;
    use crate::rr::rdata::Rdata;

    /// RFC 8945 section 6: "hmac-sha1" as an uncompressed wire-format name.
    pub open spec fn hmac_sha1_wire() -> Seq<u8> {
        seq![9u8, 0x68, 0x6d, 0x61, 0x63, 0x2d, 0x73, 0x68, 0x61, 0x31, 0]
    }
    /// RFC 8945 section 6: "hmac-sha256" as an uncompressed wire-format name.
    pub open spec fn hmac_sha256_wire() -> Seq<u8> {
        seq![11u8, 0x68, 0x6d, 0x61, 0x63, 0x2d, 0x73, 0x68, 0x61, 0x32, 0x35, 0x36, 0]
    }

    impl Algorithm {
        pub open spec fn name_wire(&self) -> Seq<u8> {
            match self { Algorithm::HmacSha1 => hmac_sha1_wire(), Algorithm::HmacSha256 => hmac_sha256_wire() }
        }

        /// The algorithm a (possibly mixed-case) wire-format name designates.
        pub open spec fn of_name(wire: Seq<u8>) -> Option<Algorithm> {
            if canonical_name(wire) == hmac_sha1_wire() { Some(Algorithm::HmacSha1) }
            else if canonical_name(wire) == hmac_sha256_wire() { Some(Algorithm::HmacSha256) }
            else { None }
        }

        #[verifier::external_body]
        pub fn name(&self) -> (r: &'static LowercaseName)
            ensures r.name().wire() == self.name_wire(), r.lc_wf(),
        { unimplemented!() }

        #[verifier::external_body]
        pub fn from_name(name: &Name) -> (r: Option<Self>)
            ensures r == Self::of_name(name.wire()),
        { unimplemented!() }
    }

    /// Stand-in for std::borrow::Cow<'a, B> at B = Rdata (`Owned` holds
    /// `<Rdata as ToOwned>::Owned` = `Box<Rdata>`); `Deref` is std's.
    pub enum Cow<'a, B: ?Sized> { Borrowed(&'a B), Owned(Box<B>) }

    impl<'a> Cow<'a, Rdata> {
        pub open spec fn rd(&self) -> &Rdata {
            match self { Cow::Borrowed(b) => *b, Cow::Owned(b) => &**b }
        }
    }
    impl<'a> core::ops::Deref for Cow<'a, Rdata> {
        type Target = Rdata;
        fn deref(&self) -> (r: &Rdata)
            ensures r == self.rd()
        {
            match self { Cow::Borrowed(b) => *b, Cow::Owned(b) => &**b }
        }
    }
}
