// TRUSTED PRELUDE: stand-in for arrayvec 0.7 `ArrayVec<T, CAP>` (view Seq<T>).
// `push` past capacity panics in the real crate, hence `requires len < CAP`.
pub mod arrayvec {
    use vstd::prelude::*;

    pub struct CapacityError;

    #[verifier::external_body]
    #[verifier::reject_recursive_types(T)]
    pub struct ArrayVec<T, const CAP: usize> { v: Vec<T> }

    impl<T, const CAP: usize> View for ArrayVec<T, CAP> {
        type V = Seq<T>;
        uninterp spec fn view(&self) -> Seq<T>;
    }

    impl<T: Copy, const CAP: usize> ArrayVec<T, CAP> {
        #[verifier::external_body]
        pub fn new() -> (r: Self)
            ensures r@ == Seq::<T>::empty()
        { unimplemented!() }

        #[verifier::external_body]
        pub fn len(&self) -> (r: usize)
            ensures r == self@.len(), r <= CAP
        { unimplemented!() }

        #[verifier::external_body]
        pub fn is_full(&self) -> (r: bool)
            ensures r == (self@.len() == CAP), self@.len() <= CAP
        { unimplemented!() }

        #[verifier::external_body]
        pub fn push(&mut self, x: T)
            requires old(self)@.len() < CAP
            ensures final(self)@ == old(self)@.push(x)
        { unimplemented!() }

        #[verifier::external_body]
        pub fn try_push(&mut self, x: T) -> (r: Result<(), CapacityError>)
            ensures
                old(self)@.len() < CAP ==> r is Ok && final(self)@ == old(self)@.push(x),
                old(self)@.len() >= CAP ==> r is Err && final(self)@ == old(self)@,
        { unimplemented!() }

        #[verifier::external_body]
        pub fn try_extend_from_slice(&mut self, s: &[T]) -> (r: Result<(), CapacityError>)
            ensures
                old(self)@.len() + s@.len() <= CAP ==> r is Ok && final(self)@ == old(self)@ + s@,
                old(self)@.len() + s@.len() > CAP ==> r is Err && final(self)@ == old(self)@,
        { unimplemented!() }

        #[verifier::external_body]
        pub fn as_slice(&self) -> (r: &[T])
            ensures r@ == self@
        { unimplemented!() }
    }

    impl<T: Copy, const CAP: usize> core::ops::Deref for ArrayVec<T, CAP> {
        type Target = [T];
        #[verifier::external_body]
        fn deref(&self) -> (r: &[T])
            ensures r@ == self@
        { unimplemented!() }
    }
}
