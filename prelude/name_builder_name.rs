// TRUSTED PRELUDE (unit name_builder, C16): the parts of `crate::name::{Name, Label,
// Labels}` that `NameBuilder::finish_with_suffix` reads from its `suffix` argument.
// Extends prelude/name.rs (not edited).  The real bodies (src/name/mod.rs:
// `Name::labels`, `Labels::next`, `Index<usize> for Name`, `Name::label_offsets`;
// src/name/label.rs: `Label::len/octets`) read the DST's offset table; they are not
// verified here.  Kani harness names::bnd_name_label_access checks on the real code
// (bounded) that `labels()` yields exactly these octets.  Every ensures that talks
// about contents is conditional on `wf()` (the invariant of every constructed Name).
pub mod name_builder_name {
    use vstd::prelude::*;
    use crate::spec_name::*;
    use crate::name_standin::Name;
    use vstd::std_specs::iter::IteratorSpec;

    /// Octets of the label whose length octet is at offset `o` of the wire form `w`.
    pub open spec fn label_at(w: Seq<u8>, o: int) -> Seq<u8> { w.subrange(o + 1, o + 1 + w[o] as int) }

    /// Stand-in for `crate::name::Label` (unsized; only used behind `&`).
    #[verifier::external_body]
    pub struct Label { x: Vec<u8> }

    impl Label {
        pub uninterp spec fn octs(&self) -> Seq<u8>;

        #[verifier::external_body]
        pub fn len(&self) -> (r: usize)
            ensures r == self.octs().len(),
        { unimplemented!() }

        #[verifier::external_body]
        pub fn octets(&self) -> (r: &[u8])
            ensures r@ == self.octs(),
        { unimplemented!() }
    }

    /// Stand-in for `crate::name::Labels` (the iterator returned by `Name::labels`).
    #[verifier::external_body]
    pub struct Labels<'a> { n: &'a Name }

    impl<'a> Iterator for Labels<'a> {
        type Item = &'a Label;
        #[verifier::external_body]
        fn next(&mut self) -> (r: Option<&'a Label>)
        { unimplemented!() }
    }

    impl<'a> vstd::std_specs::iter::IteratorSpecImpl for Labels<'a> {
        open spec fn obeys_prophetic_iter_laws(&self) -> bool { true }
        #[verifier::prophetic]
        uninterp spec fn remaining(&self) -> Seq<&'a Label>;
        #[verifier::prophetic]
        uninterp spec fn will_return_none(&self) -> bool;
        uninterp spec fn decrease(&self) -> Option<nat>;
        uninterp spec fn peek(&self, i: int) -> Option<&'a Label>;
    }

    impl Name {
        /// `Name::labels()`: a finite iterator over the labels, first label first,
        /// the null label last; label `i` is the one at offset `name_offsets[i]`.
        #[verifier::external_body]
        pub fn labels<'a>(&'a self) -> (c: Labels<'a>)
            ensures
                c.decrease() is Some,
                c.will_return_none(),
                self.wf() ==> c.remaining().len() == name_offsets(self.wire()).len(),
                self.wf() ==> forall|i: int| 0 <= i < c.remaining().len() ==>
                    (#[trigger] c.remaining()[i]).octs() == label_at(self.wire(), name_offsets(self.wire())[i]),
        { unimplemented!() }

        /// `Name::label_offsets()` (private accessor of the offset table).
        #[verifier::external_body]
        pub fn label_offsets(&self) -> (r: &[u8])
            ensures r@ == self.offsets(),
        { unimplemented!() }
    }
}
