// TRUSTED PRELUDE (query units): label view of `crate::name::Name` and the `Name` operations
// src/server/query.rs uses beyond those of prelude/writer_name.rs (`wire_repr`, `len`,
// `wire_repr_to`, `root`).  Same definitions and contracts as prelude/name_labels.rs (unit
// catalog), which cannot be included next to prelude/writer_name.rs (both define `len`/`root`).
// `labels(n)` is DEFINED from the wire form (specs/name.rs); the accessors are external_body
// (their real bodies in src/name/mod.rs use iterator adaptor chains / the DST's offset table).
// Every ensures is conditional on `wf()` of the names involved (the type invariant which the
// C14-verified constructors establish).
pub mod name_standin_q {
    use vstd::prelude::*;
    use vstd::std_specs::cmp::PartialEqSpecImpl;
    use crate::spec_name::*;
    use crate::name_standin::Name;

    /// ASCII lower-casing of one octet (RFC 4343).
    pub open spec fn lower(b: u8) -> u8 { if 65 <= b && b <= 90 { (b + 32) as u8 } else { b } }
    pub open spec fn lower_seq(s: Seq<u8>) -> Seq<u8> { Seq::new(s.len(), |i: int| lower(s[i])) }

    /// Octets of the label whose length octet is at offset `o` of the wire form `w`.
    pub open spec fn label_at(w: Seq<u8>, o: int) -> Seq<u8> { w.subrange(o + 1, o + 1 + w[o] as int) }

    /// Labels of the wire form `w`, ASCII-lower-cased, label 0 first, the null (root) label last.
    pub open spec fn wire_labels(w: Seq<u8>) -> Seq<Seq<u8>> {
        Seq::new(name_offsets(w).len(), |i: int| lower_seq(label_at(w, name_offsets(w)[i])))
    }

    /// The case-folded label sequence of a name: the key under which names are compared
    /// (RFC 1034 3.1 / RFC 4343) and under which the abstract zone of specs/zone.rs files them.
    pub open spec fn labels(n: Name) -> Seq<Seq<u8>> { wire_labels(n.wire()) }

    /// Result of `Name::eq`; connected to `labels` for well-formed names by `axiom_name_eq`.
    pub uninterp spec fn name_eq(a: Name, b: Name) -> bool;

    /// `PartialEq for Name` compares label-wise with `Label::eq` (eq_ignore_ascii_case); for
    /// well-formed names that is equality of the case-folded label sequences (property C16).
    #[verifier::external_body]
    pub proof fn axiom_name_eq(a: Name, b: Name)
        requires a.wf(), b.wf(),
        ensures name_eq(a, b) == (labels(a) == labels(b)),
    {}

    impl PartialEqSpecImpl for Name {
        open spec fn obeys_eq_spec() -> bool { true }
        open spec fn eq_spec(&self, other: &Self) -> bool { name_eq(*self, *other) }
    }
    impl PartialEq for Name {
        #[verifier::external_body]
        fn eq(&self, other: &Self) -> (r: bool) { unimplemented!() }
    }

    impl Name {
        /// `Name::eq_or_subdomain_of` (label iterators zipped from the right): "equal to or a
        /// subdomain of `other`".
        #[verifier::external_body]
        pub fn eq_or_subdomain_of(&self, other: &Name) -> (r: bool)
            ensures (self.wf() && other.wf()) ==> r == crate::spec_zone::at_or_below(labels(*self), labels(*other)),
        { unimplemented!() }
    }

    /// std `impl AsRef<T> for Box<T>`: the boxed value.
    pub assume_specification<T: ?Sized, A: core::alloc::Allocator> [<Box<T, A> as AsRef<T>>::as_ref] (b: &Box<T, A>) -> (r: &T)
        ensures r == &**b;
}
