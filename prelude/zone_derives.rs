// TRUSTED PRELUDE (unit zone): hand-expanded `#[derive(..)]` impls.
// `//@item` carries over only derive(Clone, Copy, Debug, Eq, PartialEq), so the derived
// `PartialOrd`/`Ord` of the one-field newtype `Type(u16)` and the derived `Default` of
// `RrsetList` / `NodeData` are written out here exactly as rustc's derive expands them
// for a single field (field-wise cmp, field-wise Default).  The bodies are VERIFIED
// against the spec impls below; what is trusted is only that they coincide with the
// compiler-generated ones.
pub mod zderives {
    use vstd::prelude::*;
    use vstd::std_specs::cmp::{PartialOrdSpecImpl, OrdSpecImpl};
    use core::cmp::Ordering;
    use crate::rr::Type;
    use crate::db::rrset::RrsetList;
    use crate::db::hash_map_tree::zone::NodeData;

    pub open spec fn cmp_u(a: int, b: int) -> Ordering {
        if a < b { Ordering::Less } else if a == b { Ordering::Equal } else { Ordering::Greater }
    }

    // ---- Type
    impl PartialOrdSpecImpl for Type {
        open spec fn obeys_partial_cmp_spec() -> bool { true }
        open spec fn partial_cmp_spec(&self, other: &Type) -> Option<Ordering> { Some(cmp_u(self.0 as int, other.0 as int)) }
    }
    impl PartialOrd for Type { fn partial_cmp(&self, other: &Self) -> Option<Ordering> { self.0.partial_cmp(&other.0) } }
    impl OrdSpecImpl for Type {
        open spec fn obeys_cmp_spec() -> bool { true }
        open spec fn cmp_spec(&self, other: &Type) -> Ordering { cmp_u(self.0 as int, other.0 as int) }
    }
    impl Ord for Type { fn cmp(&self, other: &Self) -> Ordering { self.0.cmp(&other.0) } }

    // ---- Default
    impl Default for RrsetList {
        fn default() -> (r: Self) ensures r.rrsets@.len() == 0 { RrsetList { rrsets: Vec::default() } }
    }
    impl Default for NodeData {
        fn default() -> (r: Self) ensures r.rrsets.rrsets@.len() == 0 { NodeData { rrsets: RrsetList::default() } }
    }

    // ---- Debug (derive(Debug) of Rrset; needed only as a trait bound of `RrsetIterator`; never called)
    #[verifier::external]
    impl core::fmt::Debug for crate::db::rrset::Rrset {
        fn fmt(&self, _f: &mut core::fmt::Formatter<'_>) -> core::fmt::Result { unimplemented!() }
    }
}
