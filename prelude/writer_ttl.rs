// TRUSTED PRELUDE (writer units): contract of `Ttl::from_raw_field`, the crate-private
// constructor introduced by notes/proposed_fixes/C12_opt_ttl.diff (src/rr/ttl.rs):
//     pub(crate) const fn from_raw_field(raw: u32) -> Self { Self(raw) }
// It is declared here, and not extracted with //@fn, so that unit writer_finish can be
// generated on trees WITHOUT the fix as well (there Writer::finish_with_mac still calls
// `Ttl::from`, this item is unused, and obligation [C12.opt_ttl] fails as it should).
// The real body is verified against exactly this contract by unit writer_ttlfix, which
// exists only on trees with the fix.
pub mod ttl_fix_w {
    use vstd::prelude::*;
    use crate::dns_types::Ttl;
    impl Ttl {
        #[verifier::external_body]
        pub const fn from_raw_field(raw: u32) -> (r: Self)
            ensures r.0 == raw
        { unimplemented!() }
    }
}
