// TRUSTED PRELUDE (query units, C05): the parts of the message writer's interface that
// src/server/query.rs uses and the writer units do not put under contract
// (notes/agent_reports/writer.md section 5: `HintPointerVec::{new,get}`,
// `HintedName::from_hint_pointer_vec{,_opt}` -- `.copied().flatten()`, `map_or` with a
// constructor as function value), the exec accessor `Rdata::octets`, and the assumption
// about recorded compression hints.
//
// * `Rdata::vq_octets` is the target of rewrite RQ1 (`X.octets()` -> `X.vq_octets()`): the
//   writer's stand-in (prelude/writer_rdata.rs) uses the name `octets` for the ghost view of an
//   `Rdata`, and Verus does not allow an exec fn and a spec fn of the same name on one type.
//   `vq_octets` is `Rdata::octets` of src/rr/rdata/mod.rs ("Returns the underlying octet slice").
// * ASSUMPTION `axiom_hints_recorded` (the remainder of property C13 documented by the writer
//   units, "hints obey the API contract"): the compression hints which `add_*_rrset` records
//   into the `HintPointerVec` it was given are offsets of label starts of names in the message
//   as it stands when the call returns.  The writer units cannot prove this (the pointers are
//   RDATA-name anchors, for which their invariant only has "in range and before the cursor"),
//   and this Verus does not connect the final value of a `&mut` held inside an `Option`
//   parameter to the callee's postcondition.  The axiom is a `proof fn` that has to be called
//   explicitly; the query units call it exactly at the return of the `add_answer_rrset` /
//   `add_authority_rrset` calls that were given `Some(&mut hint_pointer_vec)`, for that vector
//   and the writer state at that point.  It is NOT a quantified fact available to the solver.
pub mod qwriter {
    use vstd::prelude::*;
    use crate::name_standin::Name;
    use crate::rr::Rdata;
    use crate::spec_writer::*;
    use crate::message::writer::*;

    /// src/rr/rdata/mod.rs `RdataTooLongError`.
    #[derive(Debug)]
    pub struct RdataTooLongError;

    /// src/rr/rdata/mod.rs `impl<'a> TryFrom<&'a [u8]> for &'a Rdata`: "fails when the slice is longer
    /// than u16::MAX octets", otherwise the same octets seen as RDATA.
    impl<'a> TryFrom<&'a [u8]> for &'a Rdata {
        type Error = RdataTooLongError;

        #[verifier::external_body]
        fn try_from(octets: &'a [u8]) -> (r: core::result::Result<Self, Self::Error>)
            ensures
                octets@.len() <= 65535 ==> r is Ok && r->Ok_0.octets() == octets@,
                octets@.len() > 65535 ==> r is Err,
        { unimplemented!() }
    }

    impl<'a> vstd::std_specs::convert::TryFromSpecImpl<&'a [u8]> for &'a Rdata {
        open spec fn obeys_try_from_spec() -> bool { false }
        open spec fn try_from_spec(v: &'a [u8]) -> core::result::Result<Self, RdataTooLongError> { arbitrary() }
    }

    impl Rdata {
        /// src/rr/rdata/mod.rs `Rdata::octets`: the underlying octet slice.
        #[verifier::external_body]
        pub fn vq_octets(&self) -> (r: &[u8])
            ensures r@ == self.octets(),
        { unimplemented!() }
    }

    /// The pointer `p` is the offset of a label start of the message written so far: it can be
    /// used as an explicit hint (`hint_ok`, the writer's API contract for explicit hints) on a
    /// writer in state `s` and in every state that extends the message.
    pub open spec fn ptr_ok(p: HintPointer, s: WS) -> bool {
        p.in_range() && (p.val() as int) < s.cursor && label_start(s.octets, 12, s.cursor as int, p.val() as int)
    }

    /// Every hint recorded in `v` is the offset of a label start of the message in state `s`.
    pub open spec fn hpv_ok(v: HintPointerVec, s: WS) -> bool {
        forall|i: int| 0 <= i < v.inner@.len() && (#[trigger] v.inner@[i]) is Some ==> ptr_ok(v.inner@[i]->Some_0, s)
    }

    /// ASSUMED, see the head of this file.  `o`/`n`: writer state before/after a successful
    /// `add_{answer,authority}_rrset(.., Some(&mut v))`; `v`: the vector afterwards.
    #[verifier::external_body]
    pub proof fn axiom_hints_recorded(o: WS, n: WS, sect: Section, rr_type: crate::rr::Type, class: crate::class::Class,
                                      ttl: crate::rr::Ttl, n_rdatas: nat, v: HintPointerVec)
        requires
            o.wf(), n.wf(),
            add_rrset_post(o, n, sect, rr_type, class, ttl, n_rdatas, Ok::<(), Error>(())),
        ensures
            hpv_ok(v, n),
    {}

    /// Recorded hints stay usable while the message only grows (`rr_frame`: the frame of add_rr/add_rrset).
    pub proof fn lemma_hpv_kept(o: WS, n: WS, v: HintPointerVec)
        requires hpv_ok(v, o), o.cursor <= n.cursor, kept(o.octets, o.cursor as int, n.octets, n.cursor as int),
        ensures hpv_ok(v, n),
    {
        assert forall|i: int| 0 <= i < v.inner@.len() && (#[trigger] v.inner@[i]) is Some
            implies ptr_ok(v.inner@[i]->Some_0, n) by {
            let p = v.inner@[i]->Some_0;
            assert(label_start(o.octets, 12, o.cursor as int, p.val() as int));
        }
    }

    impl HintPointerVec {
        /// `HintPointerVec::new` (`Self::default()`: an empty ArrayVec).
        #[verifier::external_body]
        pub fn new() -> (r: Self)
            ensures r.inner@ == Seq::<Option<HintPointer>>::empty(),
        { unimplemented!() }
    }

    /// The hint `from_hint_pointer_vec` derives from entry `index` of `v`.
    pub open spec fn hint_from(v: HintPointerVec, index: int) -> Hint {
        if 0 <= index < v.inner@.len() && v.inner@[index] is Some { Hint::Explicit(v.inner@[index]->Some_0) } else { Hint::None }
    }

    impl<'a> HintedName<'a> {
        /// "generating the hint from the specified HintPointer in a HintPointerVec if available
        /// and using Hint::None otherwise" (`v.get(index).map_or(Hint::None, Hint::Explicit)`).
        #[verifier::external_body]
        pub fn from_hint_pointer_vec(hint_pointer_vec: &HintPointerVec, index: usize, name: &'a Name) -> (r: Self)
            ensures r.name == name, r.hint == hint_from(*hint_pointer_vec, index as int),
        { unimplemented!() }

        /// As above "if a vector is provided and the hint is available. Hint::None is used otherwise."
        #[verifier::external_body]
        pub fn from_hint_pointer_vec_opt(hint_pointer_vec: Option<&HintPointerVec>, index: usize, name: &'a Name) -> (r: Self)
            ensures
                r.name == name,
                r.hint == (match hint_pointer_vec { Some(v) => hint_from(*v, index as int), None => Hint::None }),
        { unimplemented!() }
    }
}
