// TRUSTED PRELUDE (reader/server units): opaque `Rdata`, the `Cow` that `Rdata::read`
// returns, and the ASSUMED contract of `Rdata::read` — proved (as far as it goes)
// by the RDATA units of property C18; here it is a callee contract.
pub mod rdata_min {
    use vstd::prelude::*;
    use crate::spec_msg::*;
    use crate::dns_types::*;

    #[verifier::external_body]
    pub struct Rdata { x: Vec<u8> }
    impl Rdata {
        pub uninterp spec fn octets(&self) -> Seq<u8>;
    }

    /// Stand-in for std::borrow::Cow<'a, Rdata>.
    pub enum Cow<'a, B> { Borrowed(&'a B), Owned(Box<B>) }
    impl<'a> Cow<'a, Rdata> {
        pub open spec fn octets(&self) -> Seq<u8> {
            match self { Cow::Borrowed(b) => b.octets(), Cow::Owned(b) => b.octets() }
        }
    }
}
