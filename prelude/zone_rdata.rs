// TRUSTED PRELUDE (unit zone): stand-ins for `crate::rr::{Rdata, RdataSet, RdataSetOwned}`
// (src/rr/rdata_set.rs: length-prefixed RDATA packed in one Vec<u8>, reached through an
// unsafe pointer cast).  They are seen as the sequence of RDATA octet strings they hold.
// `RdataSetOwned::insert` is documented as "not inserted if identical Rdata is already
// present (compared as if of the provided class and type)"; "identical" is
// `Rdata::equals` (property C19), here the uninterpreted `rdata_same`.
pub mod zrdata {
    use vstd::prelude::*;
    use crate::spec_zone::*;
    use crate::class::Class;
    use crate::rr::Type;

    #[verifier::external_body]
    pub struct Rdata { x: [u8] }
    impl View for Rdata {
        type V = Seq<u8>;
        uninterp spec fn view(&self) -> Seq<u8>;
    }

    #[verifier::external_body]
    pub struct RdataSet { x: [u8] }
    impl View for RdataSet {
        type V = Seq<Seq<u8>>;
        uninterp spec fn view(&self) -> Seq<Seq<u8>>;
    }
    #[verifier::external]
    impl ToOwned for RdataSet {
        type Owned = RdataSetOwned;
        fn to_owned(&self) -> RdataSetOwned { unimplemented!() }
    }

    #[verifier::external_body]
    pub struct RdataSetOwned { x: Vec<u8> }
    impl View for RdataSetOwned {
        type V = Seq<Seq<u8>>;
        uninterp spec fn view(&self) -> Seq<Seq<u8>>;
    }

    impl RdataSetOwned {
        /// `RdataSetOwned::insert`
        #[verifier::external_body]
        pub fn insert(&mut self, class: Class, rr_type: Type, rdata: &Rdata) -> (r: bool)
            ensures
                r == !rdatas_contain(old(self)@, rdata@, class.0, rr_type.0),
                r ==> final(self)@ == old(self)@.push(rdata@),
                !r ==> final(self)@ == old(self)@,
        { unimplemented!() }
    }

    /// `Borrow<RdataSet> for RdataSetOwned` (= Deref): the same set, borrowed.
    impl core::borrow::Borrow<RdataSet> for RdataSetOwned {
        #[verifier::external_body]
        fn borrow(&self) -> (r: &RdataSet)
            ensures RdataSet::view(r) == RdataSetOwned::view(self),
        { unimplemented!() }
    }

    impl vstd::std_specs::convert::FromSpecImpl<&Rdata> for RdataSetOwned {
        open spec fn obeys_from_spec() -> bool { false }
        open spec fn from_spec(v: &Rdata) -> Self { arbitrary() }
    }
    /// `From<&Rdata> for RdataSetOwned`: the one-element set.
    impl From<&Rdata> for RdataSetOwned {
        #[verifier::external_body]
        fn from(rdata: &Rdata) -> (r: Self)
            ensures r@ == seq![rdata@],
        { unimplemented!() }
    }

    /// View of a `Cow<RdataSet>` (either variant).
    pub open spec fn cow_rdatas(c: std::borrow::Cow<'_, RdataSet>) -> Seq<Seq<u8>> {
        match c {
            std::borrow::Cow::Borrowed(s) => s@,
            std::borrow::Cow::Owned(o) => o@,
        }
    }
}
