// TRUSTED PRELUDE (unit tsig_server): the two `Writer` operations the server's
// TSIG helpers use (src/server/mod.rs:612-729), as ASSUMED CALLEE CONTRACTS.
// They are the crate's own functions; their bodies are proved in the writer
// units (Writer::set_rcode: unit writer_core, [C12.rcode_roundtrip];
// Writer::set_tsig: unit writer_finish, [C02.tsig_once] [C04.tsig_reserve]).
// Here the Writer is abstract: its RCODE, its pending TSIG request, the room
// left for records (`available - cursor`) and its ARCOUNT.
//   set_tsig(mode, rr) is Err exactly when a TSIG is already pending
//   (AlreadyTsig), or the whole uncompressed TSIG RR - `rr.signed_len(alg)` for
//   the signing modes, `rr.unsigned_len(alg name)` for Unsigned - does not fit
//   (Truncation), or ARCOUNT is 65535 (CountOverflow); else Ok and pending.
// Also: std conversion `&[u8] -> Box<[u8]>`, `ToOwned` / `AsRef<Name>` for
// LowercaseName, and the server's key table `TsigKeyMap` (a std HashMap).
pub mod tsig_writer {
    use vstd::prelude::*;
    use crate::spec_tsig::*;
    use crate::tsig_hmac::*;
    use crate::dns_types::Rcode;
    use crate::name_standin::Name;
    use crate::name_standin_t::LowercaseName;
    use crate::message::tsig::{Algorithm, PreparedTsigRr};
    use crate::message::writer::{TsigMode, Error};

    /// Length of the TSIG RR `Writer::set_tsig` reserves for `mode` and `rr`.
    pub open spec fn reserved_len(mode: TsigMode, rr: PreparedTsigRr) -> int {
        match mode {
            TsigMode::Request { algorithm, .. } => rr.rr_len_spec(algorithm.name_wire().len() as int, hash_len(algorithm.hash())),
            TsigMode::Response { algorithm, .. } => rr.rr_len_spec(algorithm.name_wire().len() as int, hash_len(algorithm.hash())),
            TsigMode::Subsequent { algorithm, .. } => rr.rr_len_spec(algorithm.name_wire().len() as int, hash_len(algorithm.hash())),
            TsigMode::Unsigned { algorithm } => rr.rr_len_spec(algorithm.name().wire().len() as int, 0),
        }
    }

    #[verifier::external_body]
    pub struct Writer<'a> { x: core::marker::PhantomData<&'a mut [u8]> }

    impl<'a> Writer<'a> {
        pub uninterp spec fn rcode(&self) -> u8;
        pub uninterp spec fn tsig(&self) -> Option<(TsigMode, PreparedTsigRr)>;
        pub uninterp spec fn room(&self) -> int;
        pub uninterp spec fn arcount(&self) -> u16;

        #[verifier::external_body]
        pub fn set_rcode(&mut self, rcode: Rcode)
            ensures
                final(self).rcode() == rcode.0,
                final(self).tsig() == old(self).tsig(),
                final(self).room() == old(self).room(),
                final(self).arcount() == old(self).arcount(),
        { unimplemented!() }

        #[verifier::external_body]
        pub fn set_tsig(&mut self, mode: TsigMode, rr: PreparedTsigRr) -> (r: Result<(), Error>)
            ensures
                old(self).tsig() is Some ==> r == Err::<(), Error>(Error::AlreadyTsig),
                old(self).tsig() is None && reserved_len(mode, rr) > old(self).room() ==> r == Err::<(), Error>(Error::Truncation),
                old(self).tsig() is None && reserved_len(mode, rr) <= old(self).room() && old(self).arcount() == 65535
                    ==> r == Err::<(), Error>(Error::CountOverflow),
                old(self).tsig() is None && reserved_len(mode, rr) <= old(self).room() && old(self).arcount() < 65535 ==> r is Ok,
                r is Ok ==> final(self).tsig() == Some((mode, rr)) && final(self).rcode() == old(self).rcode(),
                r is Err ==> final(self).tsig() == old(self).tsig() && final(self).rcode() == old(self).rcode(),
        { unimplemented!() }
    }

    /// src/name/lowercase.rs `impl AsRef<Name> for LowercaseName`: the wrapped name.
    impl AsRef<Name> for LowercaseName {
        #[verifier::external_body]
        fn as_ref(&self) -> (r: &Name)
            ensures r == self.name()
        { unimplemented!() }
    }

    /// Stand-in for `server::TsigKeyMap = HashMap<Box<Name>, (Algorithm, Box<[u8]>)>`
    /// (src/server/mod.rs:75).  `Name`'s Eq/Hash ignore ASCII case, so a lookup
    /// finds the entry filed under the same name up to case: the map is viewed
    /// as a partial function of the CANONICAL wire form of the key name.
    #[verifier::external_body]
    pub struct TsigKeyMap { x: std::collections::HashMap<Box<Name>, (Algorithm, Box<[u8]>)> }

    impl TsigKeyMap {
        pub uninterp spec fn entry(&self, canonical_wire: Seq<u8>) -> Option<&(Algorithm, Box<[u8]>)>;

        /// `HashMap::get` with `Box<Name>: Borrow<Name>`.
        #[verifier::external_body]
        pub fn get(&self, k: &Name) -> (r: Option<&(Algorithm, Box<[u8]>)>)
            ensures r == self.entry(canonical_name(k.wire()))
        { unimplemented!() }
    }

    /// src/name/lowercase.rs `impl ToOwned for LowercaseName`: a boxed copy.
    impl ToOwned for LowercaseName {
        type Owned = Box<LowercaseName>;
        #[verifier::external_body]
        fn to_owned(&self) -> (r: Box<LowercaseName>)
            ensures *r == *self
        { unimplemented!() }
    }

    /// std `impl From<&[T]> for Box<[T]>`: a boxed copy of the slice.
    pub assume_specification<'a, T: core::clone::Clone> [<Box<[T]> as core::convert::From<&'a [T]>>::from] (s: &[T]) -> (r: Box<[T]>)
        ensures r@.len() == s@.len(), forall|i: int| 0 <= i < s@.len() ==> cloned(s@[i], #[trigger] r@[i]);
}
