// TRUSTED PRELUDE (thread_sync): stand-ins for std::sync::{Mutex, MutexGuard, Condvar},
// std::time::{Duration, Instant}, the pool's task queue and slab::Slab, used by unit
// `thread_pool` (property C29).  Every item here is an assumption listed in the evidence.
//
// THE LOCK PROTOCOL THAT IS ASSUMED (std mutual exclusion; poisoning ignored, i.e. the
// `LockResult` returned by lock()/wait*() is always Ok):
//
//  * A type T protected by a Mutex declares (trait `Protected`)
//      - `lock_inv`            the monitor invariant,
//      - `step_ok(pre, post)`  the two-state GUARANTEE every critical section must meet
//                              (pre = view when the guard was acquired, post = view at release),
//      - `counter`             one counted resource ("tickets": for the pool, available_workers),
//      - `counters_below_max`  physical bound on monotone counters (see below).
//  * ACQUIRE  (`lock`, and the return of `wait` / `wait_timeout` / `wait_while`) yields a guard g with
//      g@.lock_inv(),  g.acq() == g@  (ghost snapshot of the view at acquisition),
//      g@.counters_below_max().
//  * RELEASE  (`drop(g)`, passing g to `wait` / `wait_timeout` / `wait_while`, and every implicit
//      drop of a guard: `return` / end of scope) REQUIRES `g.releasable()`, i.e.
//      g@.lock_inv() && T::step_ok(g.acq(), g@) && g.mine() >= 0.
//    A FINAL release (everything but the waits) REQUIRES `g.final_releasable()`: additionally
//      g.mine() == 0 || g@.leak_ok().
//    `drop` and the wait functions carry that `requires` themselves; implicit drops cannot
//    (Verus attaches no obligation to a scope end), so the unit splices a ghost
//    `assert(g.final_releasable())` at each of them.
//  * Ticket accounting (why `counter -= 1` cannot underflow): a "guard chain" is
//      lock -> (wait -> reacquire)* -> final release   within one thread.
//    `g.mine()` = net amount this chain has added to `counter` so far
//               = g.carried() + (g@.counter() - g.acq().counter()),
//    where `carried` is 0 after `lock()` and `mine()` of the released guard after a wait.
//    Every release requires mine() >= 0 (a chain never takes out more than it has put in); a final
//    release requires mine() == 0 unless `leak_ok` (for the pool: shutdown has begun, which is
//    irrevocable by `step_ok`), so that before shutdown
//      counter == number of tickets held by chains that are suspended in a wait (or hold the lock),
//    i.e. `available_workers` really counts workers that are waiting and have not given up.
//    Meta-argument (not machine checked, this is the trusted part): the counter starts at 0
//    (ThreadGroup::start_pool creates PoolRecords with available_workers: 0) and is changed only
//    inside critical sections, so at any time the lock is free
//      counter == sum over finished chains of their final mine()  +  sum over waiting chains of their mine(),
//    all summands are >= 0, hence a chain that reacquires the lock in a wait sees
//      counter >= its own mine()      (the RELY delivered by the wait functions).
//    This is sound provided EVERY user of the mutex obeys the release requirement; the users are
//    enumerated in the unit (see notes/agent_reports/thread_zones.md).
//  * `counters_below_max`: counters that are only ever incremented once per thread start / loop
//    iteration (available_workers: usize, next_auxiliary_id: u64, thread_count: usize) are assumed not
//    to have reached the integer maximum when a guard is acquired (2^64 increments are physically
//    unreachable; on overflow debug builds panic and release builds wrap).
pub mod sync_standin {
    use vstd::prelude::*;

    pub trait Protected: Sized {
        spec fn lock_inv(&self) -> bool;
        spec fn step_ok(pre: Self, post: Self) -> bool;
        spec fn counter(&self) -> int;
        /// states in which a finished guard chain may leave its contribution in `counter`
        spec fn leak_ok(&self) -> bool;
        spec fn counters_below_max(&self) -> bool;
    }

    #[verifier::external_body]
    #[verifier::accept_recursive_types(T)]
    pub struct Mutex<T> { t: core::marker::PhantomData<T> }

    #[verifier::external_body]
    #[verifier::accept_recursive_types(T)]
    pub struct MutexGuard<'a, T> { t: core::marker::PhantomData<&'a mut T> }

    #[verifier::external_body]
    pub struct Condvar { }

    /// std::sync::LockResult with poisoning ignored: `unwrap()` always succeeds.
    #[verifier::external_body]
    #[verifier::accept_recursive_types(T)]
    pub struct LockResult<T> { t: core::marker::PhantomData<T> }

    impl<T> LockResult<T> {
        pub uninterp spec fn get(&self) -> T;
        #[verifier::external_body]
        pub fn unwrap(self) -> (r: T)
            ensures r == self.get()
        { unimplemented!() }
    }

    #[verifier::external_body]
    pub struct WaitTimeoutResult { }
    impl WaitTimeoutResult {
        pub uninterp spec fn timed_out_spec(&self) -> bool;
        #[verifier::external_body]
        pub fn timed_out(&self) -> (r: bool)
            ensures r == self.timed_out_spec()
        { unimplemented!() }
    }

    impl<'a, T> MutexGuard<'a, T> {
        /// current value of the protected data
        pub uninterp spec fn view(&self) -> T;
        /// value of the protected data when this guard was acquired (lock / return of a wait)
        pub uninterp spec fn acq(&self) -> T;
        /// net counter contribution carried over from earlier segments of the guard chain
        pub uninterp spec fn carried(&self) -> int;
    }

    impl<'a, T: Protected> MutexGuard<'a, T> {
        pub open spec fn mine(&self) -> int {
            self.carried() + (self@.counter() - self.acq().counter())
        }
        /// THE obligation at every release point (this form: release by a wait, the chain goes on).
        pub open spec fn releasable(&self) -> bool {
            self@.lock_inv() && T::step_ok(self.acq(), self@) && self.mine() >= 0
        }
        /// The obligation at a FINAL release (drop / return / end of scope: the chain ends): in
        /// addition the chain has taken back exactly what it put into `counter`, unless the
        /// protected state allows a leak.
        pub open spec fn final_releasable(&self) -> bool {
            self.releasable() && (self.mine() == 0 || self@.leak_ok())
        }
        /// what every acquisition delivers
        pub open spec fn fresh(&self) -> bool {
            self@.lock_inv() && self.acq() == self@ && self@.counters_below_max()
        }
    }

    impl<'a, T> core::ops::Deref for MutexGuard<'a, T> {
        type Target = T;
        #[verifier::external_body]
        fn deref(&self) -> (r: &T)
            ensures *r == self@
        { unimplemented!() }
    }

    impl<'a, T> core::ops::DerefMut for MutexGuard<'a, T> {
        #[verifier::external_body]
        fn deref_mut(&mut self) -> (r: &mut T)
            ensures *r == old(self)@, *final(r) == final(self)@,
                final(self).acq() == old(self).acq(), final(self).carried() == old(self).carried(),
        { unimplemented!() }
    }

    impl<T: Protected> Mutex<T> {
        #[verifier::external_body]
        pub fn lock(&self) -> (g: LockResult<MutexGuard<'_, T>>)
            ensures g.get().fresh(), g.get().carried() == 0,
        { unimplemented!() }
    }

    impl Condvar {
        #[verifier::external_body]
        pub fn wait<'a, T: Protected>(&self, guard: MutexGuard<'a, T>) -> (g: LockResult<MutexGuard<'a, T>>)
            requires guard.releasable(),
            ensures g.get().fresh(), g.get().carried() == guard.mine(), g.get()@.counter() >= guard.mine(),
        { unimplemented!() }

        #[verifier::external_body]
        pub fn wait_timeout<'a, T: Protected>(&self, guard: MutexGuard<'a, T>, dur: Duration)
            -> (g: LockResult<(MutexGuard<'a, T>, WaitTimeoutResult)>)
            requires guard.releasable(),
            ensures g.get().0.fresh(), g.get().0.carried() == guard.mine(), g.get().0@.counter() >= guard.mine(),
        { unimplemented!() }

        /// std: `while condition(&mut *guard) { guard = self.wait(guard)?; }`.
        /// The condition must be read-only (then each intermediate release trivially meets
        /// `releasable`); on return the condition has just evaluated to false on the returned view.
        #[verifier::external_body]
        pub fn wait_while<'a, T: Protected, F: FnMut(&mut T) -> bool>(&self, guard: MutexGuard<'a, T>, condition: F)
            -> (g: LockResult<MutexGuard<'a, T>>)
            requires guard.releasable(),
                forall|t: &mut T| #[trigger] condition.requires((t,)),
                forall|t: &mut T, b: bool| #[trigger] condition.ensures((t,), b) ==> *final(t) == *t,
            ensures g.get().fresh(), g.get().carried() == guard.mine(), g.get()@.counter() >= guard.mine(),
                exists|t: &mut T| *t == g.get()@ && #[trigger] condition.ensures((t,), false),
        { unimplemented!() }

        #[verifier::external_body]
        pub fn notify_one(&self) { }
        #[verifier::external_body]
        pub fn notify_all(&self) { }
    }

    /// std::mem::drop applied to a guard: an explicit release point.
    #[verifier::external_body]
    pub fn drop<'a, T: Protected>(g: MutexGuard<'a, T>)
        requires g.final_releasable(),
    { }

    // ---- std::time ---------------------------------------------------------------------
    #[verifier::external_body]
    pub struct Duration { }
    impl Copy for Duration {}
    impl Clone for Duration { #[verifier::external_body] fn clone(&self) -> Self { unimplemented!() } }
    impl Duration {
        pub uninterp spec fn is_zero_spec(&self) -> bool;
        #[verifier::external_body]
        pub fn is_zero(&self) -> (r: bool) ensures r == self.is_zero_spec() { unimplemented!() }
    }

    #[verifier::external_body]
    pub struct Instant { }
    impl Copy for Instant {}
    impl Clone for Instant { #[verifier::external_body] fn clone(&self) -> Self { unimplemented!() } }
    impl Instant {
        #[verifier::external_body]
        pub fn now() -> Instant { unimplemented!() }
        /// None iff `earlier` is later than self; the value is irrelevant here.
        #[verifier::external_body]
        pub fn checked_duration_since(&self, earlier: Instant) -> Option<Duration> { unimplemented!() }
    }
    /// `Instant + Duration` (std panics only if the result is not representable; assumed not to happen
    /// for `now() + linger_timeout`).
    impl vstd::std_specs::ops::AddSpecImpl<Duration> for Instant {
        open spec fn obeys_add_spec() -> bool { false }
        open spec fn add_req(self, rhs: Duration) -> bool { true }
        open spec fn add_spec(self, rhs: Duration) -> Instant { self }
    }
    impl core::ops::Add<Duration> for Instant {
        type Output = Instant;
        #[verifier::external_body]
        fn add(self, rhs: Duration) -> Instant { unimplemented!() }
    }

    // ---- the pool's task queue ---------------------------------------------------------
    // Rewrite R6t maps the field type `VecDeque<Box<dyn FnOnce() + Send + 'static>>` to `TaskQueue`
    // (Verus has no `dyn FnOnce`).  Tasks are abstract; a task handed to the queue must be callable
    // (`requires(())`), and a task taken from the queue is callable.
    #[verifier::external_body]
    pub struct BoxedTask { }

    #[verifier::external_body]
    pub struct TaskQueue { }

    impl TaskQueue {
        pub uninterp spec fn view(&self) -> Seq<BoxedTask>;
        pub uninterp spec fn boxed<F>(f: Box<F>) -> BoxedTask;

        #[verifier::external_body]
        pub fn push_back<F: FnOnce() + Send + 'static>(&mut self, x: Box<F>)
            requires (*x).requires(()),
            ensures final(self)@ == old(self)@.push(Self::boxed(x)),
        { unimplemented!() }

        #[verifier::external_body]
        pub fn pop_front(&mut self) -> (r: Option<impl FnOnce()>)
            ensures
                old(self)@.len() > 0 ==> r is Some && r->Some_0.requires(())
                    && final(self)@ == old(self)@.subrange(1, old(self)@.len() as int),
                old(self)@.len() == 0 ==> r is None && final(self)@ == old(self)@,
        { if true { None } else { Some(|| {}) } }

        #[verifier::external_body]
        pub fn len(&self) -> (r: usize) ensures r == self@.len() { unimplemented!() }

        #[verifier::external_body]
        pub fn is_empty(&self) -> (r: bool) ensures r == (self@.len() == 0) { unimplemented!() }
    }

    /// Target of rewrite R7b: `format!(..)` yields some String (thread names / log text only).
    #[verifier::external_body]
    pub fn vq_any_string() -> String { unimplemented!() }
}
