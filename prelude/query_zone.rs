// TRUSTED PRELUDE (query units, C05): the interface through which src/server/query.rs sees
// the zone data base.
//
// * `trait Zone` -- the crate's `db::zone::Zone` trait (src/db/zone/mod.rs) with the documented
//   meaning of each method stated over the abstract zone `ZoneV` of specs/zone.rs, in the style
//   of prelude/validation_zone.rs (C21) and extended by `lookup` / `lookup_all` and the TTLs.
//   The contracts are those that properties C06/C20 establish for the real `HashMapTreeZone`
//   (units/frag/zone_zone_fns.vrs: [C06.lookup], [C06.lookup_addrs], [C06.lookup_all],
//   [C06.wrong_zone], [C20.soa]); here they are ASSUMED callee contracts of a generic
//   `impl Zone` (trait dispatch is not modelled).  In addition every `Name` handed out by a
//   zone is a well-formed `Name` (type invariant; the zone only stores names built by the
//   C14/C16-verified constructors) and the zone itself is well formed (`zone_wf`, which
//   C20's `add` maintains).
// * `trait Catalog` -- only the associated type `ZoneImpl: Zone`, which is all that the
//   answer-construction half of query.rs uses of it (`C::ZoneImpl`).
// * `Cow` is std's; `Deref`/`AsRef` get the contract "the value borrowed or owned".
// * `RrsetIterBox` stands for `Box<dyn RrsetIterator<'a> + 'a>` (rewrite ZN6 of unit zone): an
//   iterator over the RRsets of one node, each type once (C20, iterator part).
// * `Ttl::min`: `#[derive(Ord)]` on the newtype `Ttl(u32)` + the provided `Ord::min`.
pub mod qzone {
    use vstd::prelude::*;
    use vstd::std_specs::iter::IteratorSpec;
    use std::borrow::Cow;
    use crate::spec_zone::*;
    use crate::name_standin::Name;
    use crate::name_standin_q::*;
    use crate::class::Class;
    use crate::rr::{Rdata, RdataSet, Ttl, Type};
    use crate::db::zone::{IteratedRrset, LookupAddrsResult, LookupAllResult, LookupOptions, LookupResult, SingleRrset};

    // ------------------------------------------------------------------ Cow

    #[verifier::external]
    impl ToOwned for Name {
        type Owned = Box<Name>;
        fn to_owned(&self) -> Box<Name> { unimplemented!() }
    }
    #[verifier::external]
    impl ToOwned for RdataSet {
        type Owned = Box<RdataSet>;
        fn to_owned(&self) -> Box<RdataSet> { unimplemented!() }
    }

    /// The value a `Cow` dereferences to (borrowed or owned).
    pub uninterp spec fn cow_get<'a, 'b, B: ?Sized + ToOwned>(c: &'b Cow<'a, B>) -> &'b B;

    pub assume_specification<'a, 'b, B: ?Sized + ToOwned> [<Cow<'a, B> as AsRef<B>>::as_ref] (c: &'b Cow<'a, B>) -> (r: &'b B)
        ensures r == cow_get(c);

    pub assume_specification<'a, 'b, B: ?Sized + ToOwned> [<Cow<'a, B> as core::ops::Deref>::deref] (c: &'b Cow<'a, B>) -> (r: &'b B)
        ensures r == cow_get(c);

    /// The `Name` behind a `Cow<Name>`.
    pub open spec fn cow_name(c: Cow<'_, Name>) -> Name { *cow_get(&c) }

    /// Octet strings of a sequence of RDATAs.
    pub open spec fn rdatas_v(s: Seq<&Rdata>) -> Seq<Seq<u8>> { Seq::new(s.len(), |i: int| s[i].octets()) }

    /// RDATA-sequence view of a `Cow<RdataSet>`.
    pub open spec fn cow_rdatas(c: Cow<'_, RdataSet>) -> Seq<Seq<u8>> { rdatas_v(cow_get(&c).rdatas()) }

    /// Abstract RRset of a `SingleRrset`.
    pub open spec fn single_v(s: SingleRrset<'_>) -> RrsetV { RrsetV { ttl: s.ttl.0, rdatas: cow_rdatas(s.rdatas) } }

    pub open spec fn opt_single_v(o: Option<SingleRrset<'_>>) -> Option<RrsetV> {
        match o { Some(s) => Some(single_v(s)), None => None }
    }

    // ------------------------------------------------------------------ Ttl

    impl Ttl {
        /// `Ord::min` for the derived (field-wise) `Ord` of `Ttl(u32)`.
        #[verifier::external_body]
        pub fn min(self, other: Ttl) -> (r: Ttl)
            ensures r.0 == (if self.0 <= other.0 { self.0 } else { other.0 }),
        { unimplemented!() }

        /// `Ord::max` likewise (not used by the code as it stands; present so that a body which
        /// calls it is judged against the contract instead of failing to resolve the method).
        #[verifier::external_body]
        pub fn max(self, other: Ttl) -> (r: Ttl)
            ensures r.0 == (if self.0 >= other.0 { self.0 } else { other.0 }),
        { unimplemented!() }
    }

    // ------------------------------------------------------------------ RDATA iteration with index

    /// Stand-in for `core::iter::Enumerate<rr::rdata_set::Iter<'a>>`.
    #[verifier::external_body]
    pub struct EnumIter<'a> { it: crate::rdata_standin_w::Iter<'a> }

    impl<'a> Iterator for EnumIter<'a> {
        type Item = (usize, &'a Rdata);
        #[verifier::external_body]
        fn next(&mut self) -> (r: Option<(usize, &'a Rdata)>)
        { unimplemented!() }
    }

    impl<'a> vstd::std_specs::iter::IteratorSpecImpl for EnumIter<'a> {
        open spec fn obeys_prophetic_iter_laws(&self) -> bool { true }
        #[verifier::prophetic]
        uninterp spec fn remaining(&self) -> Seq<(usize, &'a Rdata)>;
        #[verifier::prophetic]
        uninterp spec fn will_return_none(&self) -> bool;
        uninterp spec fn decrease(&self) -> Option<nat>;
        uninterp spec fn peek(&self, i: int) -> Option<(usize, &'a Rdata)>;
    }

    impl<'a> crate::rdata_standin_w::Iter<'a> {
        /// `Iterator::enumerate` on the RDATA iterator (an inherent method here, so that the call
        /// text `.iter().enumerate()` is unchanged): "an iterator which gives the current iteration
        /// count as well as the next value", counting from zero.
        #[verifier::external_body]
        pub fn enumerate(self) -> (c: EnumIter<'a>)
            ensures
                c.decrease() is Some,
                c.will_return_none(),
                c.remaining().len() == self.remaining().len(),
                forall|i: int| 0 <= i < c.remaining().len() ==> (#[trigger] c.remaining()[i]) == (i as usize, self.remaining()[i]),
        { unimplemented!() }
    }

    // ------------------------------------------------------------------ RRset iteration (lookup_all)

    /// Stand-in for `Box<dyn RrsetIterator<'a> + 'a>`.
    #[verifier::external_body]
    pub struct RrsetIterBox<'a> { v: Vec<IteratedRrset<'a>> }

    impl<'a> Iterator for RrsetIterBox<'a> {
        type Item = IteratedRrset<'a>;
        #[verifier::external_body]
        fn next(&mut self) -> (r: Option<IteratedRrset<'a>>)
        { unimplemented!() }
    }

    impl<'a> vstd::std_specs::iter::IteratorSpecImpl for RrsetIterBox<'a> {
        open spec fn obeys_prophetic_iter_laws(&self) -> bool { true }
        #[verifier::prophetic]
        uninterp spec fn remaining(&self) -> Seq<IteratedRrset<'a>>;
        #[verifier::prophetic]
        uninterp spec fn will_return_none(&self) -> bool;
        uninterp spec fn decrease(&self) -> Option<nat>;
        uninterp spec fn peek(&self, i: int) -> Option<IteratedRrset<'a>>;
    }

    /// `rrsets` lists exactly the RRsets of node `d`: every listed type is in `d` with the same
    /// TTL and RDATAs, no type is listed twice, and every type of `d` is listed.
    pub open spec fn lists_node(rrsets: Seq<IteratedRrset<'_>>, d: NodeV) -> bool {
        &&& forall|j: int| 0 <= j < rrsets.len() ==> d.contains_key((#[trigger] rrsets[j]).rr_type.0)
                && d[rrsets[j].rr_type.0] == (RrsetV { ttl: rrsets[j].ttl.0, rdatas: cow_rdatas(rrsets[j].rdatas) })
        &&& forall|j: int, k: int| 0 <= j < k < rrsets.len() ==> (#[trigger] rrsets[j]).rr_type.0 != (#[trigger] rrsets[k]).rr_type.0
        &&& forall|t: u16| #[trigger] d.contains_key(t) ==> exists|j: int| 0 <= j < rrsets.len() && (#[trigger] rrsets[j]).rr_type.0 == t
    }

    // ------------------------------------------------------------------ lookup results vs. specs/zone.rs

    /// The reported source of synthesis is `node` exactly when a wildcard was used.
    pub open spec fn sos_matches(s: Option<Cow<'_, Name>>, node: NameK, wildcard: bool) -> bool {
        (wildcard ==> s is Some && cow_name(s->Some_0).wf() && labels(cow_name(s->Some_0)) == node) && (!wildcard ==> s is None)
    }

    pub open spec fn referral_matches(rf: crate::db::zone::Referral<'_>, cut: NameK, ns: RrsetV) -> bool {
        cow_name(rf.child_zone).wf() && labels(cow_name(rf.child_zone)) == cut && single_v(rf.ns_rrset) == ns
    }

    /// A `LookupResult` is the answer `a`.
    pub open spec fn lookup_matches(r: LookupResult<'_>, a: Answer) -> bool {
        match a {
            Answer::Found { node, wildcard, rrset } => match r {
                LookupResult::Found(f) => single_v(f.data) == rrset && sos_matches(f.source_of_synthesis, node, wildcard),
                _ => false,
            },
            Answer::Cname { node, wildcard, rrset } => match r {
                LookupResult::Cname(c) => single_v(c.rrset) == rrset && sos_matches(c.source_of_synthesis, node, wildcard),
                _ => false,
            },
            Answer::NoRecords { node, wildcard } => match r {
                LookupResult::NoRecords(n) => sos_matches(n.source_of_synthesis, node, wildcard),
                _ => false,
            },
            Answer::Referral { cut, ns } => match r {
                LookupResult::Referral(rf) => referral_matches(rf, cut, ns),
                _ => false,
            },
            Answer::NxDomain => r is NxDomain,
            Answer::WrongZone => r is WrongZone,
        }
    }

    /// A `LookupAddrsResult` is the answer `a`.  (`Cname`: "No records were found, but a CNAME
    /// record was present" -- the documented variant for a node without address records that
    /// owns a CNAME; the real HashMapTreeZone never produces it.)
    pub open spec fn addrs_matches(r: LookupAddrsResult<'_>, a: AddrsAnswer, zclass: u16) -> bool {
        match a {
            AddrsAnswer::Found { node, wildcard, a, aaaa } => match r {
                // "callers should only access the aaaa_rrset field when the class is IN": nothing is
                // assumed about it in other classes (there `aaaa` is None by definition of the spec)
                LookupAddrsResult::Found(f) => opt_single_v(f.data.a_rrset) == a
                    && (aaaa is Some || zclass == CLASS_IN ==> opt_single_v(f.data.aaaa_rrset) == aaaa)
                    && sos_matches(f.source_of_synthesis, node, wildcard),
                LookupAddrsResult::Cname(_) => a is None && aaaa is None,
                _ => false,
            },
            AddrsAnswer::Referral { cut, ns } => match r {
                LookupAddrsResult::Referral(rf) => referral_matches(rf, cut, ns),
                _ => false,
            },
            AddrsAnswer::NxDomain => r is NxDomain,
            AddrsAnswer::WrongZone => r is WrongZone,
        }
    }

    /// A `LookupAllResult` is the answer `a` (the boxed iterator yields exactly the node's RRsets).
    #[verifier::prophetic]
    pub open spec fn all_matches(r: LookupAllResult<'_>, a: AllAnswer) -> bool {
        match a {
            AllAnswer::Found { node, wildcard, rrsets } => match r {
                LookupAllResult::Found(f) => f.data.decrease() is Some && f.data.will_return_none()
                    && lists_node(f.data.remaining(), rrsets)
                    && sos_matches(f.source_of_synthesis, node, wildcard),
                _ => false,
            },
            AllAnswer::Referral { cut, ns } => match r {
                LookupAllResult::Referral(rf) => referral_matches(rf, cut, ns),
                _ => false,
            },
            AllAnswer::NxDomain => r is NxDomain,
            AllAnswer::WrongZone => r is WrongZone,
        }
    }

    // ------------------------------------------------------------------ Zone / Catalog

    pub trait Zone {
        /// The zone's contents and class.
        spec fn zv(&self) -> ZoneV;
        spec fn zclass(&self) -> u16;
        /// The zone's name (same vocabulary as the catalog units' `Zone` stand-in).
        spec fn spec_name(&self) -> Name;

        /// The zone's name is a valid name, it names the apex of the zone's contents, and the contents
        /// are well formed (what `name()` returns at run time, available to ghost code of callers --
        /// e.g. handle_query, to turn the catalog's longest-suffix result into `at_or_below(qname, apex)`).
        proof fn lemma_apex(&self)
            ensures self.spec_name().wf(), labels(self.spec_name()) == self.zv().apex, zone_wf(self.zv());

        /// "Returns the name of the zone (i.e., the domain name of the zone's apex node)."
        fn name(&self) -> (r: &Name)
            ensures *r == self.spec_name(), r.wf(), labels(*r) == self.zv().apex, zone_wf(self.zv());

        fn class(&self) -> (r: Class)
            ensures r.0 == self.zclass();

        /// "Looks up records of the given type at the provided domain name."  (C06)
        fn lookup(&self, name: &Name, rr_type: Type, options: LookupOptions) -> (r: LookupResult<'_>)
            requires
                name.wf(),
                options.unchecked ==> at_or_below(labels(*name), self.zv().apex),
            ensures
                lookup_matches(r, lookup_spec(self.zv(), labels(*name), rr_type.0, options.search_below_cuts));

        /// "Looks up all address records at the provided domain name."  (C06)
        fn lookup_addrs(&self, name: &Name, options: LookupOptions) -> (r: LookupAddrsResult<'_>)
            requires
                name.wf(),
                options.unchecked ==> at_or_below(labels(*name), self.zv().apex),
            ensures
                addrs_matches(r, lookup_addrs_spec(self.zv(), self.zclass(), labels(*name), options.search_below_cuts), self.zclass());

        /// "Looks up all records present at the provided domain name."  (C06)
        fn lookup_all(&self, name: &Name, options: LookupOptions) -> (r: LookupAllResult<'_>)
            requires
                name.wf(),
                options.unchecked ==> at_or_below(labels(*name), self.zv().apex),
            ensures
                all_matches(r, lookup_all_spec(self.zv(), labels(*name), options.search_below_cuts));

        /// "Returns the SOA RRset at the zone's apex, if it exists."  (C20)
        fn soa(&self) -> (r: Option<SingleRrset<'_>>)
            ensures
                opt_single_v(r) == opt_rrset(self.zv().nodes[self.zv().apex], TYPE_SOA);
    }

    /// `db::catalog::Catalog`, as far as the answer-construction half of query.rs uses it.
    pub trait Catalog {
        type ZoneImpl: Zone;
    }
}
