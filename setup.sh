#!/bin/sh
# Offline setup: nothing to download. Warm the Kani dependency build cache so
# the first check does not pay for it (failure here is not fatal: every check
# rebuilds what it needs).
cd "$(dirname "$0")" || exit 1
mkdir -p .work evidence
python3 -c "import vq.main" || exit 1
verus --version >/dev/null 2>&1 || { echo "verus not found"; exit 1; }
python3 -m vq.warm || true
exit 0
