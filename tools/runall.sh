#!/bin/sh
# dev-time: run every registered check (quick) on /repo, in sequence; summary at the end
cd /verif
for P in $(python3 -c "import json; print(' '.join(c['property_id'] for c in json.load(open('MANIFEST.json'))['checks']))"); do
  s=$(date +%s); ./check $P "$@" > .work/runall.$P.log 2>&1; rc=$?; e=$(date +%s)
  echo "$P rc=$rc $((e-s))s $(grep -E 'VIOLATION|UNDECIDED|KNOWN-FINDING' .work/runall.$P.log | head -2 | cut -c1-160)"
done
