#!/usr/bin/env python3
"""Validate MANIFEST.json and evidence/*.json against the schemas in /root/.vp (run with python3-vt)."""
import json, glob, sys
import jsonschema
ok = True
ms = json.load(open('/root/.vp/MANIFEST.schema.json'))
es = json.load(open('/root/.vp/EVIDENCE.schema.json'))
m = json.load(open('/verif/MANIFEST.json'))
try:
    jsonschema.validate(m, ms)
except Exception as e:
    ok = False
    print('MANIFEST invalid:', str(e)[:500])
ids = [c['property_id'] for c in m['checks']]
for i in ids:
    f = '/verif/evidence/%s.json' % i
    try:
        e = json.load(open(f))
        jsonschema.validate(e, es)
        cov = e['coverage']
        note = ''
        if e['level'] == 'proof' and cov.get('obligations') != cov.get('discharged'):
            ok = False
            note = ' OBLIGATIONS != DISCHARGED'
        print(i, e['tier'], e['level'], cov.get('obligations'), cov.get('discharged'), round(e['wall_s']), e.get('violations'), note)
    except Exception as x:
        ok = False
        print(i, 'INVALID', str(x)[:300])
props = [json.loads(l) for l in open('/verif/properties.jsonl') if l.strip()]
allp = set(p.get('id') or p.get('property_id') for p in props)
claimed = set(ids)
na = set((x['property_id'] if isinstance(x, dict) else x) for x in m.get('not_applicable', []))
print('claimed', len(claimed), 'n/a', sorted(na), 'unaccounted', sorted(allp - claimed - na))
sys.exit(0 if ok else 1)
