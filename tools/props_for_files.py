#!/usr/bin/env python3
"""props_for_files.py <patch.diff|file...>: properties whose Verus units extract from the given /repo files."""
import os, re, sys, glob
sys.path.insert(0, '/verif')
from vq import props

def unit_files(unit, seen=None):
    seen = seen or set()
    files = set()
    for p in ['/verif/units/%s.vrs' % unit] if not unit.endswith('.vrs') else [unit]:
        if p in seen or not os.path.exists(p):
            continue
        seen.add(p)
        for line in open(p):
            m = re.match(r'\s*//@(fn|item)\s+(\S+)', line)
            if m:
                files.add(m.group(2))
            m = re.match(r'\s*//@use\s+(\S+)', line)
            if m and 'mode=assume' not in line:
                q = m.group(1)
                cand = [q, '/verif/units/' + q, '/verif/units/frag/' + q, '/verif/units/frag/' + q + '.vrs', '/verif/units/' + q + '.vrs']
                for c in cand:
                    if os.path.exists(c) and os.path.isfile(c):
                        files |= unit_files(c, seen)
                        break
    return files

def main():
    args = sys.argv[1:]
    files = set()
    for a in args:
        if a.endswith('.diff') or a.endswith('.patch'):
            files |= set(re.findall(r'^\+\+\+ b/(\S+)', open(a).read(), re.M))
        else:
            files.add(a)
    out = []
    for pid, p in sorted(props.PROPS.items()):
        uf = set()
        for v in p.get('verus', []):
            uf |= unit_files(v['unit'])
        if uf & files:
            out.append(pid)
    print(' '.join(out))

main()
