#!/bin/sh
# dev-time: tools/vu.sh <unit> [extra verus args] -- generate unit and run verus with human-readable output.
# Honours VQ_REPO (defaults to /repo). Output file: .work/dev/<unit>.rs
cd /verif || exit 2
U="$1"; shift
mkdir -p .work/dev
python3 -m vq.extract units/$U.vrs .work/dev/$U.rs > .work/dev/$U.extract.log 2>&1 || { cat .work/dev/$U.extract.log | tail -5; exit 2; }
cd .work/dev && verus $U.rs --multiple-errors 10 "$@" 2>&1 | grep -v "^warning: unused\|^note: recommendation" 
