#!/bin/sh
# usage: tools/seedbatch.sh <ID-n> <srcdir> "<props to run>" [demo-append-target]
# copies the seed into /verif/seeded/<ID-n>/, confirms it in a scratch worktree, then runs the checks via VQ_REPO
N="$1"; S="$2"; PROPS="$3"; APPEND="$4"
D=/verif/seeded/$N; mkdir -p $D; cp $S/patch.diff $S/demo.rs $S/meta.json $D/ 2>/dev/null
W=/tmp/seedconf-$N
git -C /repo worktree remove --force $W 2>/dev/null; rm -rf $W
git -C /repo worktree add -q --detach $W HEAD || exit 3
cd $W || exit 3
export CARGO_TARGET_DIR=/tmp/seedconf-target-$(echo $N | cut -c1-3)
{
echo "== seed $N  (repo HEAD $(git -C /repo log --format=%h -1))"
if ! git apply "$D/patch.diff"; then echo "RESULT patch: DOES-NOT-APPLY"; cd /; git -C /repo worktree remove --force $W; exit 3; fi
echo "-- suite with patch:"; cargo test --workspace --no-fail-fast --offline 2>&1 | grep "^test result"
if [ -n "$APPEND" ]; then cat "$D/demo.rs" >> "$APPEND"; DEMO="cargo test --offline --bin quandaryd seed_demo"; else mkdir -p tests; cp "$D/demo.rs" tests/seed_demo.rs; DEMO="cargo test --offline --test seed_demo"; fi
echo "-- demo with patch:"; $DEMO 2>&1 | grep "^test result" | tail -2
git checkout -q -- . ; if [ -n "$APPEND" ]; then cat "$D/demo.rs" >> "$APPEND"; fi
echo "-- demo without patch:"; $DEMO 2>&1 | grep "^test result" | tail -2
} > $D/confirm.log 2>&1
cd /; git -C /repo worktree remove --force $W; rm -rf $W
VQ_MUT_ARGS="" /verif/tools/mut.sh "$PROPS" -p $D/patch.diff > $D/check.log 2>&1
echo "$N: $(grep -c 'test result: ok' $D/confirm.log) ok-lines; $(grep -E 'rc=|VIOLATION|UNDECIDED' $D/check.log | cut -c1-150 | tr '\n' ' ')"
