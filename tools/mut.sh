#!/bin/sh
# dev-time: tools/mut.sh "<props>" <patchfile | -e sed-expr file> ; runs checks against a mutated scratch copy of /repo
# usage: tools/mut.sh "C14 C15" -e 's/a/b/' src/name/wire.rs     or   tools/mut.sh "C14" -p /path/patch.diff
PROPS="$1"; shift
D=/var/tmp/vqmut-$$
rm -rf $D; mkdir -p $D; rsync -a --exclude target --exclude .git /repo/ $D/repo/
if [ "$1" = "-e" ]; then
  sed -i "$2" "$D/repo/$3" || exit 3
  if diff -q "/repo/$3" "$D/repo/$3" >/dev/null; then echo "MUTATION DID NOT APPLY"; rm -rf $D; exit 3; fi
elif [ "$1" = "-p" ]; then
  (cd $D/repo && patch -p1 -s < "$2") || { echo "PATCH FAILED"; rm -rf $D; exit 3; }
fi
for P in $PROPS; do
  VQ_REPO=$D/repo /verif/check $P $VQ_MUT_ARGS > $D/out.$P 2>&1; rc=$?
  echo "== $P rc=$rc"; grep -E "VIOLATION|UNDECIDED|KNOWN-FINDING|^OK|failed obligation" $D/out.$P | cut -c1-300
done
rm -rf $D
