#!/bin/sh
# usage: tools/seedconfirm.sh <seed-dir-with-patch.diff+demo.rs> <name>
# Confirms in a fresh scratch worktree of /repo HEAD: patch applies, full test suite passes with it,
# demo fails with it and passes without it. Prints a summary; copies nothing.
S="$1"; N="$2"; W=/tmp/seedconf-$N
git -C /repo worktree remove --force $W 2>/dev/null; rm -rf $W
git -C /repo worktree add -q --detach $W HEAD || exit 3
cd $W || exit 3
export CARGO_TARGET_DIR=$W/target
git apply "$S/patch.diff" || { echo "PATCH DOES NOT APPLY"; cd /; git -C /repo worktree remove --force $W; exit 3; }
echo "--- suite with patch:"; cargo test --workspace --no-fail-fast --offline 2>&1 | grep "^test result" 
mkdir -p tests; cp "$S/demo.rs" tests/seed_demo.rs
echo "--- demo with patch:"; cargo test --offline --test seed_demo 2>&1 | grep "^test result\|^test .*FAILED\|panicked" | head -8
git checkout -q -- . 
echo "--- demo without patch:"; cargo test --offline --test seed_demo 2>&1 | grep "^test result" | head -3
cd /; git -C /repo worktree remove --force $W; rm -rf $W
